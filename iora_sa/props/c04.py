"""C04 — Synchronous connect yields a live session or a definite error in time (DESIGN.md §2 C04)."""
from .. import access
from ..cfg import search, witness_str, elem_dominates
from ..expr import show, walk, last, field_of, strip_wrappers, strip_casts, short, const_value, access_path
from ..facts import AnalysisBroken
from ..predabs import Vocab, PredAbs, A, Not, And, Or, T, translate, known_when, total
from ..rules import common
from . import c03

TITLE = "Synchronous connect yields a live session or a definite error in time"
TECHNIQUE = 'custom static analysis over clang-14 CFG facts: exactly-once counting with ghost atoms in a finite predicate abstraction, dominance, call-graph reachability from timeout/cancel paths'
IMPL, SYNC, SCO, FILE = c03.IMPL, c03.SYNC, c03.SCO, c03.FILE
TR = "iora::network::Transport"
EB = "iora::network::detail::EngineBase"

EXPLANATION = (
    "Static obligations over Transport::connectSync, the engine connect/close callbacks and the engines' connect(): R1 from the engine "
    "connect call to the wait, syncMutex is held continuously and the waiter is registered (pendingConnects store + ParkGuard) inside that "
    "region; R2 engine connect is issued only after the shutting-down fence was seen clear in the same critical section; R3 in the "
    "onConnect/onClose engine callbacks a hit in pendingConnects completes the waiter (result, done, erase in one critical section, then "
    "notify) and no global callback, observer, tombstone or user-data cleanup is reachable on that path (predicate abstraction with the "
    "atom op≠null); R4 the engines' connect() reach no callback invocation and no socket call — they only enqueue; R5 success is returned "
    "only on op->done before any engine close; after the timeout-path close no ok result is reachable, the close runs with syncMutex "
    "released and the lock is re-acquired before the ParkGuard dies; R7 the I/O-thread identity guard precedes the first lock; R8 the "
    "cancellable wrapper tests the token before every connectSync and bounds each sub-wait by min(remaining, interval).")
NOT_DECIDED = ["'no later than timeout plus bounded slack' (timing)", "that a handshake completed (OpenSSL)", "peers that black-hole (run time)",
               "C04-R6 (every id gets a terminal event) is decided as C02-R3"]


def _cs(ctx):
    return ctx.fb().func(TR + "::connectSync", file_suffix=FILE)


def _engine_call(f, method):
    return [e for e in f.stmts() if e.node.get("k") == "mcall" and e.node.get("callee") == EB + "::" + method]


def _waits(f):
    return [e for e in f.stmts() if e.node.get("k") == "mcall" and e.node.get("callee", "").startswith("std::condition_variable") and last(e.node["callee"]) in common.CV_WAIT]


def _wait(f):
    """the wait that parks the caller for the connect result: the first one (it dominates every other wait); further waits are
    judged by C04-R11"""
    ws = _waits(f)
    first = [w for w in ws if all(w is x or elem_dominates(f, w, x) for x in ws)]
    if len(first) != 1:
        raise AnalysisBroken("%s: expected one parking condition-variable wait, found %d candidates among %d waits" % (short(f.name), len(first), len(ws)))
    return first[0]


def r11(ctx, r):
    """'... no later than its timeout plus a bounded slack': every blocking step of connectSync is a timed wait whose bound is
    the caller's timeout, and no path parks twice (the sum of two full timeouts is not timeout + slack)."""
    f = _cs(ctx)
    ws = _waits(f)
    if not ws:
        raise AnalysisBroken("connectSync: no condition-variable wait")
    tparam = [p_["n"] for p_ in f.params if "chrono" in p_["t"]]
    if len(tparam) != 1:
        raise AnalysisBroken("connectSync: timeout parameter not identified")
    for w in ws:
        r.instance()
        m = last(w.node["callee"])
        timed = m in ("wait_for", "wait_until")
        bound = timed and any(x.get("k") == "var" and x.get("n") == tparam[0] for a in w.node.get("args", []) for x in walk(a))
        r.expect(timed and bound, f, w, "unbounded wait in connectSync", "connectSync blocks in `%s` %s: the call can return later than timeout + slack — as late as the I/O thread (a slow name lookup of another "
                 "caller, a long user callback, a command backlog) gets round to it" % (show(w.node)[:60], "without any time bound" if not timed else "with a bound that is not the caller's timeout"),
                 okdesc="wait bounded by the caller's timeout")
    for a in ws:
        for b in ws:
            if a is not b and search(f, a, lambda x, b=b: x is b, eh=False) is not None:
                r.instance()
                r.fail(f, b, "connectSync parks twice", "a path of connectSync waits at line %d and again at line %d: the total is not bounded by one timeout" % (a.line, b.line))
    # blocking calls other than the waits: joins, sleeps, futures
    for e in f.stmts():
        n = e.node
        if n.get("k") in ("mcall", "call") and (last(n.get("callee", "")) in ("join", "sleep_for", "sleep_until", "get") and ("std::thread" in n.get("callee", "") or "this_thread" in n.get("callee", "") or "std::future" in n.get("callee", ""))):
            r.instance()
            r.fail(f, e, "blocking call in connectSync", "connectSync calls %s" % n["callee"])



def r1(ctx, r):
    f, la = _cs(ctx), c03._la(ctx)
    conns = [e for e in _engine_call(f, "connect") if la.mutexes(f, e)]   # the UDP shortcut runs before any lock
    allc = _engine_call(f, "connect")
    if not allc:
        raise AnalysisBroken("connectSync no longer calls engine->connect")
    wait = _wait(f)
    tcp = [e for e in allc if search(f, e, lambda x: x is wait, eh=False) is not None]
    r.instance(len(tcp))
    if not tcp:
        r.fail(f, None, "connect not followed by wait", "no engine connect call reaches the wait")
        return
    for c in tcp:
        ok, w = common.same_section(f, la, c, wait, SYNC)
        r.expect(ok and la.holds(f, c, SYNC), f, c, "connect…wait not one section",
                 "syncMutex is not held continuously from engine->connect() to the wait: the I/O thread's completion can run before the waiter is registered "
                 "and the wake-up is lost (connectSync then reports a timeout for a live session)", witness=w,
                 okdesc="engine->connect … wait_for under one continuous syncMutex hold")
        stores = [e for e in f.stmts() if e.node.get("k") == "opcall" and e.node.get("op") == "=" and
                  (access_path(e.node["args"][0]) or ("", ""))[-2:] == (IMPL + "::pendingConnects", "[]")]
        guards = [e for e in f.stmts() if e.node.get("k") == "decl" and any(v["t"].endswith("ParkGuard") for v in e.node["vars"])]
        r.instance()
        r.expect(any(elem_dominates(f, c, s) and elem_dominates(f, s, wait) for s in stores), f, c, "waiter not registered",
                 "pendingConnects[sid] is not stored between engine->connect() and the wait", okdesc="pendingConnects[sid] = op between connect and wait")
        r.instance()
        g_ok = [g for g in guards if elem_dominates(f, c, g) and elem_dominates(f, g, wait) and "activeConnects" in show(g.node)]
        r.expect(bool(g_ok), f, c, "waiter not counted", "no ParkGuard on activeConnects is constructed between engine->connect() and the wait: teardown would not wait for this caller",
                 okdesc="ParkGuard(activeConnects) between connect and wait")


def r2(ctx, r):
    f, la = _cs(ctx), c03._la(ctx)
    vocab = Vocab(["shutting"])

    def leaf(n):
        if n.get("k") == "member" and n["n"] == IMPL + "::shuttingDown":
            return A("shutting")
        return None

    def eff(e):
        if e.kind == "stmt" and e.node.get("k") == "mcall" and (e.node.get("callee") == "std::unique_lock::unlock" or e.node.get("callee", "").startswith("std::condition_variable")):
            return [("havoc", "shutting")]
        if e.kind == "dtor" and e.raw.get("t", "").startswith(("std::unique_lock", "std::lock_guard")):
            return [("havoc", "shutting")]
        return None
    pa = PredAbs(f, vocab, leaf, eff, track_bools=True)
    for c in _engine_call(f, "connect"):
        if not la.mutexes(f, c):
            r.note("engine->connect at line %s runs before any lock (UDP immediate connect)" % c.line)
            continue
        r.instance()
        r.expect(pa.entails(c, Not(A("shutting"))) and la.holds(f, c, SYNC), f, c, "connect without fence",
                 "engine->connect() is reachable without having seen shuttingDown false in the same syncMutex section: a connect can be issued on an engine being torn down",
                 okdesc="engine->connect only after !shuttingDown under syncMutex")


def _cb_abs(ctx, lam):
    """predicate abstraction of an engine callback lambda with the atom op != null"""
    vocab = Vocab(["op"])

    def leaf(n):
        if n.get("k") == "mcall" and last(n.get("callee", "")).startswith("operator bool") and (n.get("obj") or {}).get("k") == "var" and n["obj"]["n"] == "op":
            return A("op")
        if n.get("k") == "var" and n["n"] == "op":
            return A("op")
        return None

    def eff(e):
        if e.kind != "stmt":
            return None
        n = e.node
        if n.get("k") == "decl":
            for v in n["vars"]:
                if v["n"] == "op":
                    return [("set", "op", False)]
        if n.get("k") == "opcall" and n.get("op") == "=" and n["args"][0].get("k") == "var" and n["args"][0]["n"] == "op":
            return [("set", "op", True)]    # op = it->second : the registered waiter (never null: stored from make_shared)
        return None
    return PredAbs(lam, vocab, leaf, eff)


def r3(ctx, r):
    la = c03._la(ctx)
    lams = c03.lambdas(ctx)
    for which in ("onConnect", "onClose"):
        lam = lams[which]
        pa = _cb_abs(ctx, lam)
        assigns = [e for e in lam.stmts() if e.node.get("k") == "opcall" and e.node.get("op") == "=" and e.node["args"][0].get("k") == "var" and e.node["args"][0]["n"] == "op"]
        r.instance()
        if len(assigns) != 1:
            r.fail(lam, None, "%s: no pending-connect branch" % which, "the %s engine callback no longer looks the session up in pendingConnects" % which)
            continue
        hit = assigns[0]
        # completion in the hit's critical section: result, done = true, erase
        dones = [e for (e, n, k) in common.field_writes(lam, SCO + "::done")]
        resw = common.field_writes(lam, SCO + "::result")
        ress = [e for (e, n, k) in resw]
        resvals = [show(common.assigned_value(lam, n) or {}) for (e, n, k) in resw]
        erases = common.member_calls_on(lam, IMPL + "::pendingConnects", ("erase",))
        for lab, lst in (("done = true", dones), ("result", ress), ("pendingConnects.erase", erases)):
            r.instance()
            ok = False
            for e in lst:
                s, w = common.same_section(lam, la, hit, e, SYNC)
                if s and elem_dominates(lam, hit, e):
                    ok = True
            r.expect(ok, lam, hit, "%s: %s missing" % (which, lab), "on a pending synchronous connect the %s callback does not set %s in the critical section that found the waiter" % (which, lab),
                     okdesc="%s: %s in the hit's critical section" % (which, lab))
        if which == "onConnect":
            r.instance()
            r.expect(any("Result::ok" in v for v in resvals), lam, hit, "onConnect result", "onConnect does not complete the waiter with ok(sid)", okdesc="onConnect: result = ok(sid)")
        else:
            r.instance()
            r.expect(any("Result::err" in v for v in resvals), lam, hit, "onClose result", "onClose does not complete the waiter with err(reason)", okdesc="onClose: result = err(reason)")
        # waiter is notified
        nots = [e for e in lam.stmts() if e.node.get("k") == "mcall" and last(e.node["callee"]) in ("notify_one", "notify_all") and field_of(e.node.get("obj")) == SCO + "::cv"]
        r.instance()
        r.expect(bool(nots) and all(pa.entails(e, A("op")) for e in nots), lam, hit, "%s: waiter not notified" % which, "the parked connectSync is not notified", okdesc="%s: op->cv.notify" % which)
        # suppression: nothing user-visible on the hit path
        effects = [e for (e, t) in common.fn_invocations(lam)]
        effects += [e for (e, n, k) in common.field_writes(lam, c03.SRB + "::closed")]
        effects += common.member_calls_on(lam, IMPL + "::sessionData", ("erase",))
        effects += common.member_calls_on(lam, IMPL + "::observers", ("erase", "find"))
        if not effects:
            raise AnalysisBroken("%s lambda has no user-visible effects to check" % which)
        for e in effects:
            r.instance()
            r.expect(pa.entails(e, Not(A("op"))), lam, e, "%s: global effect on pending connect" % which,
                     "`%s` is reachable on the path where the session belongs to a parked connectSync: the application would see a callback for an id it was never given" % show(e.node)[:70],
                     okdesc="%s: %s only when no pending connect" % (which, show(e.node)[:40]))


def r4(ctx, r):
    fb, cg = ctx.fb(), ctx.cg()
    for cls in ("iora::network::TcpEngine", "iora::network::UdpEngine"):
        f = fb.func(cls + "::connect")
        reach = cg.reach([f], follow_lambdas=True)
        r.instance()
        bad = []
        for g in fb.functions:
            if g.sig not in reach or not g.ok:
                continue
            if not (g.cls == cls or (g.kind == "lambda" and g.name.startswith(cls + "::"))):
                continue
            for e in g.stmts():
                n = e.node
                if n.get("k") == "call" and n.get("callee") in ("socket", "connect", "getaddrinfo", "send", "sendto", "recv", "bind", "accept4"):
                    bad.append((g, e, "socket call %s" % n["callee"]))
                if n.get("k") == "opcall" and n.get("op") == "()" and n.get("callee") == "std::function::operator()":
                    tgt = show(n["args"][0])
                    # the error callback on the enqueue exception path is the documented exception
                    if "onError" in tgt or tgt == "cb" and "enqueue" in g.name:
                        continue
                    bad.append((g, e, "callback %s" % tgt))
        r.expect(not bad, bad[0][0] if bad else f, bad[0][1] if bad else None, "%s::connect does more than enqueue" % last(cls),
                 "%s::connect() reaches %s: it must only enqueue a command (connectSync registers its waiter after connect() returns)" % (last(cls), bad[0][2] if bad else ""),
                 okdesc="%s::connect reaches no socket call and no session callback (%d functions)" % (last(cls), len(reach)))


def r4b(ctx, r):
    """connectSync's timeout path relies on FIFO order: its Close is queued after the Connect, so it finds the session whatever
    the I/O thread has got round to.  That only holds if close(sid) ALWAYS queues a command — a close() that first looks the
    session up and drops the request for an id not yet inserted loses exactly the close of a connect still in the queue."""
    fb = ctx.fb()
    for cls in ("iora::network::TcpEngine", "iora::network::UdpEngine"):
        fs = [g for g in fb.funcs(cls + "::close") if g.ok and len(g.params) == 1]
        if len(fs) != 1:
            raise AnalysisBroken("%s::close(sid): %d definitions" % (last(cls), len(fs)))
        g = fs[0]
        enq = [e for e in g.stmts() if e.node.get("k") == "mcall" and last(e.node.get("callee", "")) == "enqueue"]
        r.instance()
        w = search(g, ("entry",), "exit", stop=lambda x: x in enq, eh=False)
        r.expect(bool(enq) and w is None, g, None, "%s::close may not queue" % last(cls), "%s::close(sid) can return without queueing a Close command (%s): a close issued for an id whose Connect command has not been "
                 "dispatched yet — connectSync's timeout path, an application that gives up early — is lost, the connect then completes and nobody closes the session" % (last(cls), witness_str(g, w) if w else "no enqueue"),
                 okdesc="%s::close always queues" % last(cls))


def r5(ctx, r):
    f, la = _cs(ctx), c03._la(ctx)
    wait = _wait(f)
    vocab = Vocab(["done", "closed_issued"])

    def leaf(n):
        if n.get("k") == "member" and n["n"] == SCO + "::done":
            return A("done")
        return None
    closes = _engine_call(f, "close")

    def eff(e):
        if e.kind != "stmt":
            return None
        if e in closes:
            return [("set", "closed_issued", True)]
        n = e.node
        if n.get("k") == "mcall" and (n.get("callee") == "std::unique_lock::unlock" or n.get("callee", "").startswith("std::condition_variable")):
            return [("havoc", "done")]
        return None
    pa = PredAbs(f, vocab, leaf, eff, init=Not(A("closed_issued")), track_bools=True)
    oks = [e for e in common.returns(f) if elem_dominates(f, wait, e) and ("op->result" in show(e.node) or "Result::ok" in show(e.node))]
    r.instance()
    r.expect(len(oks) >= 1, f, None, "no success return", "connectSync never returns the completed result", okdesc="success return present")
    for e in oks:
        r.instance()
        r.expect(pa.entails(e, And(A("done"), Not(A("closed_issued")))), f, e, "success after close / without done",
                 "connectSync can return the operation's result although the completion flag was not seen set, or after it has already issued engine->close() for that "
                 "session (known: %s): the caller would get a live-looking id for a session the transport closed" % ",".join(pa.describe(e)),
                 okdesc="result returned only when op->done and before any engine->close")
    # timeout path: close is issued with the lock released, lock re-acquired before the guard dies
    r.instance()
    r.expect(len(closes) == 1, f, None, "timeout close", "connectSync issues engine->close() at %d sites, expected exactly one (timeout path)" % len(closes), okdesc="one timeout-path close")
    for c in closes:
        r.instance()
        r.expect(SYNC not in la.mutexes(f, c), f, c, "engine close under syncMutex", "engine->close() is called with syncMutex held (lock-order inversion with the I/O thread's callbacks)",
                 okdesc="engine->close with syncMutex released")
        r.instance()
        unlocks = [e for e in f.stmts() if e.node.get("k") == "mcall" and e.node.get("callee") == "std::unique_lock::unlock" and elem_dominates(f, e, c)]
        r.expect(bool(unlocks) and all(pa.entails(u, Not(A("done"))) for u in unlocks), f, c, "close of a completed connect",
                 "the timeout path releases the lock to close the session although the connect was seen completed (op->done) in that critical section",
                 okdesc="timeout close only when !op->done was seen before releasing the lock")
    # every return after the close is an error result
    for e in common.returns(f):
        if closes and search(f, closes[0], lambda x, e=e: x is e, eh=False) is not None:
            r.instance()
            r.expect("Result::err" in show(e.node), f, e, "non-error after close", "a return reachable after engine->close() is not an error result", okdesc="return after close is err(...)")
    # ParkGuard destructor runs under the lock on every path
    for e in f.elems():
        if e.kind == "dtor" and e.raw.get("t", "").endswith("ParkGuard"):
            r.instance()
            r.expect(la.holds(f, e, SYNC), f, e, "ParkGuard dies without lock", "the ParkGuard destructor (counter decrement) runs on a path where syncMutex is not held",
                     okdesc="~ParkGuard under syncMutex (line %s)" % e.line)
            # … and not before the timeout path's call into the engine: while uncounted, a concurrent ~Transport completes its
            # handshake and frees the engine (and Impl) under that call
            for c in closes:
                r.instance()
                w = search(f, e, lambda x, c=c: x is c, eh=False)
                r.expect(w is None, f, c, "engine call after the count was released", "connectSync calls engine->close() after its ParkGuard has already been destroyed (%s): between the unlock and the return of that call "
                         "the caller is inside the engine but not counted in activeConnects, so a teardown from another thread can finish and free the engine under it (use-after-free)" % witness_str(f, w),
                         okdesc="engine->close() while still counted")


def r7(ctx, r):
    fb, la = ctx.fb(), c03._la(ctx)
    for name in ("connectSync", "sendSync", "receiveSync", "setReadMode"):
        f = fb.func(TR + "::" + name, file_suffix=FILE)
        r.instance()
        guards = [b for b in f.blocks.values() if b.cond is not None and "getIoThreadId" in show(b.cond) and "get_id" in show(b.cond)]
        throws = [e for e in f.stmts() if e.node.get("k") == "throw"]
        locks = [e for e in f.stmts() if e.node.get("k") == "decl" and any(v["t"].startswith(("std::unique_lock", "std::lock_guard")) for v in e.node["vars"])]
        blocking = locks + _engine_call(f, "send")
        ok = bool(guards) and bool(throws)
        if ok:
            g = guards[0]
            # the throw is on the guard's true edge and every lock acquisition / engine call is after the guard
            from ..cfg import dominators
            dom = dominators(f, eh=False)
            ok = all(g.id in dom[x.block.id] for x in blocking) and any(elem_is_on_true_edge(f, g, t) for t in throws)
        r.expect(ok, f, None, "%s: no I/O-thread guard" % name, "%s does not test the calling thread against the engine's I/O thread (and throw) before it locks or blocks: "
                 "called from a callback it would deadlock" % name, okdesc="%s: thread-identity guard dominates the first lock" % name)


def elem_is_on_true_edge(f, block, elem):
    s = block.succs[0]
    if s is None:
        return False
    return search(f, ("block", s), lambda x: x is elem, eh=False) is not None


def _unctor(n):
    n = strip_wrappers(n)
    while n is not None and n.get("k") == "ctor" and len([a for a in n["args"] if not a.get("def")]) == 1:
        n = strip_wrappers(n["args"][0])
    return n


def r8(ctx, r):
    fb = ctx.fb()
    f = fb.func("iora::network::ITransport::connectSyncCancellable")
    calls = [e for e in f.stmts() if e.node.get("k") == "mcall" and last(e.node.get("callee", "")) == "connectSync"]
    if len(calls) < 1:
        raise AnalysisBroken("connectSyncCancellable no longer calls connectSync")
    vocab = Vocab(["cancelled"])

    def leaf(n):
        if n.get("k") == "mcall" and last(n.get("callee", "")) == "isCancelled":
            return A("cancelled")
        return None

    def eff(e):
        # the token can be cancelled at any time: knowledge lasts until the next blocking call
        if e.kind == "stmt" and e in calls:
            return [("havoc", "cancelled")]
        return None
    pa = PredAbs(f, vocab, leaf, eff)
    for c in calls:
        r.instance()
        r.expect(pa.entails(c, Not(A("cancelled"))), f, c, "connect without cancel test",
                 "connectSync is started without the cancellation token having been tested since the previous blocking call: a cancelled caller still opens a connection",
                 okdesc="isCancelled() tested before connectSync at line %s" % c.line)
        r.instance()
        t = _unctor(c.node["args"][-1])
        init = None
        if t is not None and t.get("k") == "var":
            defs = []
            for e in f.stmts():
                n = e.node
                if n.get("k") == "decl":
                    for v in n["vars"]:
                        if v["n"] == t["n"] and v.get("init") is not None:
                            defs.append(_unctor(v["init"]))
                if n.get("k") in ("bin", "opcall") and n.get("op") == "=":
                    lhs = n["lhs"] if n["k"] == "bin" else n["args"][0]
                    if lhs.get("k") == "var" and lhs["n"] == t["n"]:
                        defs.append(_unctor(n["rhs"] if n["k"] == "bin" else n["args"][1]))
            ok = bool(defs) and all(d.get("k") == "call" and d.get("callee") == "std::min" and "subInterval" in show(d) and "remaining" in show(d) for d in defs)
        else:
            ok = False
        r.expect(ok, f, c, "unbounded sub-wait", "the timeout handed to connectSync is not min(remaining, subInterval): cancellation is not observed within the polling interval",
                 okdesc="sub-timeout = min(remaining, subInterval)")


def r9(ctx, r):
    """a sub-attempt that succeeded is handed to the caller (or closed), never dropped"""
    fb = ctx.fb()
    for fname in ("iora::network::ITransport::connectSyncCancellable",):
        f = fb.func(fname)
        calls = [e for e in f.stmts() if e.node.get("k") == "mcall" and last(e.node.get("callee", "")) == "connectSync"]
        vocab = Vocab(["isok", "attempted"])

        def leaf(n):
            if n.get("k") == "mcall" and last(n.get("callee", "")) == "isOk" and (n.get("obj") or {}).get("k") == "var":
                return A("isok")
            if n.get("k") == "mcall" and last(n.get("callee", "")) == "isErr" and (n.get("obj") or {}).get("k") == "var":
                return Not(A("isok"))
            return None
        closes = [e for e in f.stmts() if e.node.get("k") == "mcall" and last(e.node.get("callee", "")) == "close"]

        def eff(e):
            if e in calls:
                return [("havoc", "isok"), ("set", "attempted", True)]
            if e in closes:
                return [("set", "isok", False)]
            return None
        pa = PredAbs(f, vocab, leaf, eff, init=And(Not(A("attempted")), Not(A("isok"))))
        for ret in common.returns(f):
            v = strip_wrappers(ret.node.get("v")) if ret.node.get("v") else None
            while v is not None and v.get("k") == "ctor" and len(v.get("args", [])) == 1:
                v = strip_wrappers(v["args"][0])
            returns_result = v is not None and v.get("k") == "var" and "Result" in v.get("t", "")
            if returns_result:
                continue
            r.instance()
            r.expect(pa.entails(ret, Not(A("isok"))), f, ret, "successful connect dropped",
                     "%s can return an error at line %s although the connectSync attempt that just finished may have succeeded: the established session is neither handed "
                     "to the caller nor closed, so a session attributable to this call stays open" % (last(fname), ret.line), okdesc="error return at line %s only when the last attempt failed" % ret.line)


def r10(ctx, r):
    """The waiter that timed out leaves its pendingConnects entry behind so that the onClose caused by its own close(sid) is
    swallowed.  That only works if nothing removes the entry in between: the onConnect callback — the one other place that
    erases entries — must be able to tell a parked waiter from one that has given up, through a mark the timeout path sets
    under syncMutex before it releases the lock."""
    from ..finite import dominating_facts
    f, la = _cs(ctx), c03._la(ctx)
    lams = c03.lambdas(ctx)
    closes = _engine_call(f, "close")
    if len(closes) != 1:
        raise AnalysisBroken("connectSync: %d engine->close sites" % len(closes))
    tclose = closes[0]
    # the protocol this rule knows: connectSync itself does not erase the entry on the timeout path
    own_erases = [e for e in common.member_calls_on(f, IMPL + "::pendingConnects", ("erase",)) if search(f, e, lambda x: x is tclose, eh=False) is not None or search(f, tclose, lambda x, e=e: x is e, eh=False) is not None]
    lam = lams["onConnect"]
    erases = common.member_calls_on(lam, IMPL + "::pendingConnects", ("erase",))
    if not erases:
        raise AnalysisBroken("onConnect: pendingConnects.erase not found")
    # marks: SyncConnectOp fields written in connectSync under syncMutex on the way to the timeout close (dominating it)
    marks = set()
    for fld in ctx.fb().record(SCO)["fields"]:
        name = SCO + "::" + fld["n"]
        for (e, n, k) in common.field_writes(f, name):
            if elem_dominates(f, e, tclose) and SYNC in la.mutexes(f, e):
                marks.add(name)
    for e in erases:
        r.instance()
        tested = set()
        for (c, t) in dominating_facts(lam, e):
            for n in walk(c):
                if n.get("k") == "member" and n["n"].startswith(SCO + "::"):
                    tested.add(n["n"])
        guard = tested & marks
        if tested and not guard and not marks:
            detail = "the erase is guarded by %s but connectSync's timeout path sets no SyncConnectOp field under syncMutex before it releases the lock" % ", ".join(sorted(short(x) for x in tested))
        elif tested and not guard:
            detail = "the erase tests %s, the timeout path marks %s" % (", ".join(sorted(short(x) for x in tested)), ", ".join(sorted(short(x) for x in marks)))
        else:
            detail = "the erase is unconditional once the entry is found"
        r.expect(bool(guard), lam, e, "late onConnect erases a timed-out waiter's entry",
                 "connectSync's timeout path keeps pendingConnects[sid] so that the onClose caused by its own close(sid) is swallowed, but a connect that completes after the waiter gave up "
                 "(before the Close command is processed) reaches this erase — %s: the following onClose finds no entry and fires the GLOBAL onClose (observers, tombstone) for an id connectSync never returned" % detail,
                 okdesc="erase only for a waiter not marked %s" % ", ".join(sorted(short(x) for x in guard)))
        if guard:
            # the completion (done/result) must be behind the same test: an abandoned waiter is not completed with ok(sid)
            for name in (SCO + "::done", SCO + "::result"):
                for (w, n, k) in common.field_writes(lam, name):
                    r.instance()
                    wt = set()
                    for (c, t) in dominating_facts(lam, w):
                        wt |= {x["n"] for x in walk(c) if x.get("k") == "member" and x["n"].startswith(SCO + "::")}
                    r.expect(bool(wt & guard), lam, w, "abandoned waiter completed", "%s is written for a waiter marked as given up" % short(name), okdesc="%s only for a parked waiter" % short(name))
    if own_erases and not r.failures:
        # the mark protocol holds, but connectSync also removes entries itself around the close: not the protocol decided here
        raise AnalysisBroken("connectSync erases pendingConnects around its timeout close: a protocol this rule does not know")
    # the global onConnect stays suppressed for the abandoned waiter: covered by R3 (every global effect entails op == null)
    # every way connectSync gives up while its entry stays registered needs the mark — not only the timeout: a waiter released
    # by the teardown fence returns ShuttingDown with the entry in place, and shutdownDrain's close for that id must still be
    # swallowed.  Returns after the registration that are not the success hand-over (`op->result`) and not behind `done`:
    reg = [e for e in f.stmts() if e.node.get("k") == "opcall" and e.node.get("op") == "=" and any(x.get("k") == "member" and x["n"] == IMPL + "::pendingConnects" for x in walk(e.node["args"][0]))]
    if len(reg) != 1:
        raise AnalysisBroken("connectSync: registration in pendingConnects not found")
    if marks:
        for ret in common.returns(f):
            if not elem_dominates(f, reg[0], ret) or "op->result" in show(ret.node):
                continue
            r.instance()
            marked = any(elem_dominates(f, e, ret) and SYNC in la.mutexes(f, e) for name in marks for (e, n, k) in common.field_writes(f, name))
            r.expect(marked, f, ret, "waiter gives up unmarked", "connectSync returns an error at line %d while its pendingConnects entry stays registered, without marking the op (%s) under syncMutex first: a connect completing "
                     "afterwards erases the entry, and the close that ends that session — the drain's, if this was the teardown wake-up — fires the GLOBAL onClose for an id nobody received"
                     % (ret.line, ", ".join(sorted(short(x) for x in marks))), okdesc="error return after registration is marked")


def run(ctx, ck):
    ck.run_rule("C04-R1", "register-before-completion: connect…wait is one syncMutex section containing the registration", "A1 same-section + A2", lambda r: r1(ctx, r))
    ck.run_rule("C04-R2", "engine connect only behind the shutting-down fence", "A5", lambda r: r2(ctx, r))
    ck.run_rule("C04-R3", "pending synchronous connects are completed and every global effect is suppressed", "A5 (op≠null) + A1", lambda r: r3(ctx, r))
    ck.run_rule("C04-R4", "engine connect() only enqueues", "A3 reachability", lambda r: r4(ctx, r))
    ck.run_rule("C04-R4b", "engine close(sid) always queues a command (a close before the connect is dispatched is not lost)", "A2 must-pass", lambda r: r4b(ctx, r))
    ck.run_rule("C04-R5", "success only on done and before close; timeout path closes outside the lock and never succeeds", "A5 ghost atom + A1", lambda r: r5(ctx, r))
    ck.run_rule("C04-R7", "I/O-thread guard precedes the first lock in the synchronous operations", "A2 dominance", lambda r: r7(ctx, r))
    ck.run_rule("C04-R8", "cancellable connect tests the token before every attempt and bounds each sub-wait", "A5 + dataflow", lambda r: r8(ctx, r))
    ck.run_rule("C04-R10", "the entry of a timed-out waiter survives until the close it caused is reported", "protocol rule: mark under lock on the timeout path, tested before the other eraser", lambda r: r10(ctx, r))
    ck.run_rule("C04-R11", "connectSync blocks only in one wait bounded by the caller's timeout", "closed set of blocking calls + path search", lambda r: r11(ctx, r))
    ck.run_rule("C04-R12", "a stale connect/handshake timer cannot close a connect that completed (= C02-R4)", "A5 + A3", lambda r: __import__("iora_sa.props.c02", fromlist=["r4"]).r4(ctx, r))
    ck.run_rule("C04-R9", "a successful sub-attempt is returned or closed, never dropped", "A5", lambda r: r9(ctx, r))
