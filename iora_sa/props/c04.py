"""C04 — Synchronous connect yields a live session or a definite error in time (DESIGN.md §2 C04)."""
from .. import access
from ..cfg import search, witness_str, elem_dominates
from ..expr import show, walk, last, field_of, strip_wrappers, strip_casts, short, const_value, access_path
from ..facts import AnalysisBroken
from ..predabs import Vocab, PredAbs, A, Not, And, Or, T, translate, known_when, total
from ..rules import common
from . import c03

TITLE = "Synchronous connect yields a live session or a definite error in time"
TECHNIQUE = 'custom static analysis over clang-14 CFG facts: exactly-once counting with ghost atoms in a finite predicate abstraction, dominance, call-graph reachability from timeout/cancel paths'
IMPL, SYNC, SCO, FILE = c03.IMPL, c03.SYNC, c03.SCO, c03.FILE
TR = "iora::network::Transport"
EB = "iora::network::detail::EngineBase"

EXPLANATION = (
    "Static obligations over Transport::connectSync, the engine connect/close callbacks and the engines' connect(): R1 from the engine "
    "connect call to the wait, syncMutex is held continuously and the waiter is registered (pendingConnects store + ParkGuard) inside that "
    "region; R2 engine connect is issued only after the shutting-down fence was seen clear in the same critical section; R3 in the "
    "onConnect/onClose engine callbacks a hit in pendingConnects completes the waiter (result, done, erase in one critical section, then "
    "notify) and no global callback, observer, tombstone or user-data cleanup is reachable on that path (predicate abstraction with the "
    "atom op≠null); R4 the engines' connect() reach no callback invocation and no socket call — they only enqueue; R5 success is returned "
    "only on op->done before any engine close; after the timeout-path close no ok result is reachable, the close runs with syncMutex "
    "released and the lock is re-acquired before the ParkGuard dies; R5b the value of every return after that close is built by Result::err, "
    "traced through locals and helper functions; R7 the I/O-thread identity guard precedes the first lock; R8 the "
    "cancellable wrapper tests the token before every connectSync and bounds each sub-wait by min(remaining, interval).")
# exempt from the function-inventory guard (report.py): these rules look into functions they have never seen
FOLLOWS_HELPERS = {"C04-R3": "the pending-connect branch is judged in whichever transport function holds the lookup (the callback lambda or the helper it calls, hit/miss through the "
                             "helper's bool result); global effects are collected through helper calls; a completion step moved deeper is a refusal, not a finding",
                   "C04-R4": "call-graph closure from the engines' connect(): a new helper on that path is part of the closure",
                   "C04-R5b": "the value of every return after the timeout close is classified by what builds it, through locals and the bodies of the functions it comes from; "
                              "an untraceable value is a refusal",
                   "C04-R12": "is c02.r4 (C02-R4, exempt there for the same reason): pure bool predicates of the engine are expanded at the branch they decide; a guard it cannot expand is a refusal raised by the rule itself",
                   "C04-R4b": "close(sid) must queue on every path; a same-class helper that always queues counts as the queueing step"}
NOT_DECIDED = ["'no later than timeout plus bounded slack' (timing)", "that a handshake completed (OpenSSL)", "peers that black-hole (run time)",
               "C04-R6 (every id gets a terminal event) is decided as C02-R3"]


def _cs(ctx):
    return ctx.fb().func(TR + "::connectSync", file_suffix=FILE)


def _engine_call(f, method):
    return [e for e in f.stmts() if e.node.get("k") == "mcall" and e.node.get("callee") == EB + "::" + method]


def _waits(f):
    return [e for e in f.stmts() if e.node.get("k") == "mcall" and e.node.get("callee", "").startswith("std::condition_variable") and last(e.node["callee"]) in common.CV_WAIT]


def _wait(f):
    """the wait that parks the caller for the connect result: the first one (it dominates every other wait); further waits are
    judged by C04-R11"""
    ws = _waits(f)
    first = [w for w in ws if all(w is x or elem_dominates(f, w, x) for x in ws)]
    if len(first) != 1:
        raise AnalysisBroken("%s: expected one parking condition-variable wait, found %d candidates among %d waits" % (short(f.name), len(first), len(ws)))
    return first[0]


def r11(ctx, r):
    """'... no later than its timeout plus a bounded slack': every blocking step of connectSync is a timed wait whose bound is
    the caller's timeout, and no path parks twice (the sum of two full timeouts is not timeout + slack)."""
    f = _cs(ctx)
    ws = _waits(f)
    if not ws:
        raise AnalysisBroken("connectSync: no condition-variable wait")
    tparam = [p_["n"] for p_ in f.params if "chrono" in p_["t"]]
    if len(tparam) != 1:
        raise AnalysisBroken("connectSync: timeout parameter not identified")
    for w in ws:
        r.instance()
        m = last(w.node["callee"])
        timed = m in ("wait_for", "wait_until")
        bound = timed and any(x.get("k") == "var" and x.get("n") == tparam[0] for a in w.node.get("args", []) for x in walk(a))
        r.expect(timed and bound, f, w, "unbounded wait in connectSync", "connectSync blocks in `%s` %s: the call can return later than timeout + slack — as late as the I/O thread (a slow name lookup of another "
                 "caller, a long user callback, a command backlog) gets round to it" % (show(w.node)[:60], "without any time bound" if not timed else "with a bound that is not the caller's timeout"),
                 okdesc="wait bounded by the caller's timeout")
    for a in ws:
        for b in ws:
            if a is not b and search(f, a, lambda x, b=b: x is b, eh=False) is not None:
                r.instance()
                r.fail(f, b, "connectSync parks twice", "a path of connectSync waits at line %d and again at line %d: the total is not bounded by one timeout" % (a.line, b.line))
    # blocking calls other than the waits: joins, sleeps, futures
    for e in f.stmts():
        n = e.node
        if n.get("k") in ("mcall", "call") and (last(n.get("callee", "")) in ("join", "sleep_for", "sleep_until", "get") and ("std::thread" in n.get("callee", "") or "this_thread" in n.get("callee", "") or "std::future" in n.get("callee", ""))):
            r.instance()
            r.fail(f, e, "blocking call in connectSync", "connectSync calls %s" % n["callee"])



# ---------------------------------------------------------------------------------------------------------------------------
# Looking through helper functions and local names.  A behaviour-preserving refactoring may move any of the constructs the rules
# below look at into a member function of the transport (helper extraction) and may rename every local.  The rules therefore
# (a) resolve direct calls to functions defined in the transport's own header and judge the callee's body where the construct
# now lives, (b) identify "the waiter record in hand" by the TYPE of the local (a SyncConnectOp handle) and by where its value
# comes from (read out of pendingConnects), never by its name, (c) classify a returned ConnectResult by what it is built from.

def _own_callee(fb, n):
    """the single analysable definition, in the transport's own header, of a directly called function (None for virtual calls
    into the engine, std:: functions, lambdas, overload sets)"""
    if n is None or n.get("k") not in ("call", "mcall"):
        return None
    c = n.get("callee", "")
    if not c.startswith(TR + "::"):     # Transport::… and Transport::Impl::…
        return None
    gs = [g for g in fb.by_name.get(c, []) if g.ok and g.file.endswith(FILE) and g.kind in ("method", "function")]
    if len(gs) > 1:
        na = len([a for a in n.get("args", []) if not a.get("def")])
        gs = [g for g in gs if len(g.params) == na]
    return gs[0] if len(gs) == 1 else None


def _helper_calls(fb, f):
    """[(call element in f, callee Function)]: f's direct calls to functions defined in the transport's own header"""
    out = []
    for e in f.stmts():
        g = _own_callee(fb, e.node)
        if g is not None and g is not f:
            out.append((e, g))
    return out


def _is_waiter_handle(t):
    """the type of a local that holds one waiter record: SyncConnectOp by shared_ptr, pointer or reference (NOT the map's iterator / value pair)"""
    t = (t or "").replace("const ", "").replace(" const", "").strip(" &*")
    return t in (SCO, "std::shared_ptr<%s>" % SCO)


def _decls(f):
    d = f.__dict__.get("_c04_decls")
    if d is None:
        d = {}
        for e in f.stmts():
            if e.node.get("k") == "decl":
                for v in e.node["vars"]:
                    d[v["d"]] = v
        f.__dict__["_c04_decls"] = d
    return d


def _from_pending(f, n, depth=0):
    """the value is read out of pendingConnects: it names the map, or an iterator / reference local initialised from it"""
    for x in walk(n):
        if x.get("k") == "member" and x.get("n") == IMPL + "::pendingConnects":
            return True
        if x.get("k") == "var" and depth < 3:
            v = _decls(f).get(x.get("d"))
            if v is not None and isinstance(v.get("init"), dict) and not _is_waiter_handle(v.get("t")) and _from_pending(f, v["init"], depth + 1):
                return True
    return False


def _is_null(n):
    n = strip_wrappers(n)
    if n is None:
        return True
    if n.get("k") == "null":
        return True
    return n.get("k") == "ctor" and not [a for a in n.get("args", []) if not a.get("def")]


def _waiter_abs(f, hit_helpers=None):
    """Predicate abstraction of f with the single atom `op` = "the record of a waiter registered in pendingConnects is in hand".
    The local that holds the record is found by its type; it makes the atom false where it is declared empty / set to null, true
    where it receives a value read out of pendingConnects, unknown for any other value.  hit_helpers {callee name: polarity}: a
    call to a helper that performs the lookup and reports it through its bool result leaves the atom unknown and the call's value
    tests it.  Returns (PredAbs, [elements at which the record is taken out of the map])."""
    hit_helpers = hit_helpers or {}
    wv = {d: v for d, v in _decls(f).items() if _is_waiter_handle(v.get("t"))}
    if len(wv) > 1:
        raise AnalysisBroken("%s: %d locals hold a SyncConnectOp (%s): the rule follows one waiter record per function" % (short(f.name), len(wv), ", ".join(sorted(v["n"] for v in wv.values()))))
    vocab = Vocab(["op"])

    def is_w(x):
        x = strip_wrappers(x)
        return x is not None and x.get("k") == "var" and x.get("d") in wv

    def leaf(n):
        if is_w(n):
            return A("op")
        if n.get("k") in ("call", "mcall") and n.get("callee") in hit_helpers:
            return A("op") if hit_helpers[n["callee"]] else Not(A("op"))
        for (o, l, rr) in common.cmp_both(n):
            if o in ("==", "!=") and is_w(l) and strip_wrappers(rr) is not None and strip_wrappers(rr).get("k") == "null":
                return Not(A("op")) if o == "==" else A("op")
        return None

    def value(v):
        if isinstance(v, dict) and not _is_null(v) and _from_pending(f, v):
            return [("set", "op", True)]
        if _is_null(v):
            return [("set", "op", False)]
        return [("havoc", "op")]
    hits = []

    def eff(e):
        if e.kind != "stmt":
            return None
        n = e.node
        k = n.get("k")
        if k == "decl":
            for v in n["vars"]:
                if v["d"] in wv:
                    return value(v.get("init"))
        if k == "opcall" and n.get("op") == "=" and len(n.get("args", [])) == 2 and is_w(n["args"][0]):
            return value(n["args"][1])
        if k == "bin" and n.get("op") == "=" and is_w(n.get("lhs")):
            return value(n.get("rhs"))
        if k == "mcall" and last(n.get("callee", "")) == "reset" and is_w(n.get("obj")):
            return value(n["args"][0]) if [a for a in n.get("args", []) if not a.get("def")] else [("set", "op", False)]
        if k in ("call", "mcall") and n.get("callee") in hit_helpers:
            return [("havoc", "op")]
        return None
    for e in f.stmts():
        if eff(e) == [("set", "op", True)]:
            hits.append(e)
    return PredAbs(f, vocab, leaf, eff, track_bools=True), hits


def _hit_polarity(g, pa):
    """helper g performs the lookup: does its bool result tell a hit from a miss?  True: returns true exactly on a hit; False:
    returns false exactly on a hit; AnalysisBroken when the result does not separate the two."""
    pol = set()
    for ret in common.returns(g):
        v = strip_casts(ret.node.get("v")) if ret.node.get("v") else None
        if not pa.reachable(ret):
            continue
        if v is None or v.get("k") != "bool":
            raise AnalysisBroken("%s looks the session up in pendingConnects but does not report hit / miss as a constant bool at line %s: a hand-over shape this rule does not follow" % (short(g.name), ret.line))
        hit = pa.entails(ret, A("op"))
        miss = pa.entails(ret, Not(A("op")))
        if hit == miss:
            raise AnalysisBroken("%s: the return at line %s is reached both with and without a waiter record" % (short(g.name), ret.line))
        pol.add((v["cv"] == 1) == hit)
    if len(pol) != 1:
        raise AnalysisBroken("%s: its bool result does not separate 'pending synchronous connect' from 'ordinary session'" % short(g.name))
    return pol.pop()


class _Site:
    """where an engine callback hands a pending synchronous connect to its waiter: `body` is the function that holds the lookup (the
    callback lambda itself, or the transport member function it calls), `pa`/`hit` its abstraction and the element that takes the
    record out of the map; `lam_pa` is the abstraction of the lambda (the same object when body is the lambda)."""


def _completion_site(ctx, lam):
    fb = ctx.fb()
    s = _Site()
    s.lam = lam
    pa, hits = _waiter_abs(lam)
    if hits:
        s.body, s.pa, s.hits, s.lam_pa, s.calls = lam, pa, hits, pa, []
        return s
    cands = {}
    for (ce, g) in _helper_calls(fb, lam):
        if g.sig not in cands:
            pg, hg = _waiter_abs(g)
            cands[g.sig] = (g, pg, hg, [])
        cands[g.sig][3].append(ce)
    cands = [c for c in cands.values() if c[2]]
    if len(cands) > 1:
        raise AnalysisBroken("%s calls %d helpers that take a record out of pendingConnects (%s)" % (short(lam.name), len(cands), ", ".join(short(c[0].name) for c in cands)))
    if not cands:
        # is the lookup really gone, or only somewhere this rule does not follow (a nested lambda, a second-level helper, no local)?
        reach = ctx.cg().reach([lam], follow_lambdas=True)
        for g in fb.functions:
            if g.ok and (g is lam or g.sig in reach) and any(n.get("k") == "member" and n.get("n") == IMPL + "::pendingConnects" for n in g.nodes.values()):
                raise AnalysisBroken("%s: pendingConnects is used in %s but no local receives the waiter record from it: a shape of the pending-connect branch this rule does not follow" % (short(lam.name), short(g.name)))
        return None
    g, pg, hg, calls = cands[0]
    s.body, s.pa, s.hits, s.calls = g, pg, hg, calls
    s.lam_pa, _ = _waiter_abs(lam, {g.name: _hit_polarity(g, pg)})
    return s


def _global_effects(fb, f, skip=(), depth=0):
    """elements of f with an effect the application can observe — std::function invocations (global callback, observers), the
    tombstone write, user-data and observer bookkeeping — and calls to transport helper functions that contain one"""
    effs = [e for (e, t) in common.fn_invocations(f)]
    effs += [e for (e, n, k) in common.field_writes(f, c03.SRB + "::closed")]
    effs += common.member_calls_on(f, IMPL + "::sessionData", ("erase",))
    effs += common.member_calls_on(f, IMPL + "::observers", ("erase", "find"))
    if depth < 3:
        for (ce, g) in _helper_calls(fb, f):
            if g.sig not in skip and _global_effects(fb, g, skip, depth + 1):
                effs.append(ce)
    return effs


def _deep_helpers(fb, f, depth=3):
    """transport functions reachable from f through direct calls (f itself excluded)"""
    out, todo = {}, [(f, 0)]
    while todo:
        g, d = todo.pop()
        if d >= depth:
            continue
        for (ce, h) in _helper_calls(fb, g):
            if h.sig not in out and h is not f:
                out[h.sig] = h
                todo.append((h, d + 1))
    return list(out.values())


def _result_kinds(fb, f, v, depth=0):
    """what a ConnectResult-valued expression of f can be: 'err' (built by Result::err), 'ok' (built by Result::ok), 'result' (the
    waiter record's stored result), 'engine' (what the engine's connect() returned), '?' (anything else: a parameter, an unknown call).  Looks through moves and copies, ?:, locals
    (all their definitions) and calls to functions whose body is known (all their returns)."""
    v = strip_wrappers(v)
    while v is not None and v.get("k") == "ctor" and len([a for a in v.get("args", []) if not a.get("def")]) == 1 and "Result" in (v.get("cls") or ""):
        v = strip_wrappers([a for a in v["args"] if not a.get("def")][0])
    if v is None:
        return {"?"}
    k = v.get("k")
    if k == "call" and last(v.get("callee", "")) in ("err", "ok") and "Result" in v.get("callee", ""):
        return {last(v["callee"])}
    if k == "member" and v.get("n") == SCO + "::result":
        return {"result"}
    if k == "mcall" and v.get("callee") == EB + "::connect":
        return {"engine"}
    if k == "cond":
        return _result_kinds(fb, f, v.get("t"), depth) | _result_kinds(fb, f, v.get("f"), depth)
    if k == "var" and depth < 4 and v.get("parm") is None:
        out = set()
        for e in f.stmts():
            n = e.node
            if n.get("k") == "decl":
                for dv in n["vars"]:
                    if dv["d"] == v.get("d"):
                        out |= _result_kinds(fb, f, dv.get("init"), depth + 1) if isinstance(dv.get("init"), dict) else {"?"}
            elif n.get("k") == "opcall" and n.get("op") == "=" and len(n.get("args", [])) == 2:
                l = strip_wrappers(n["args"][0])
                if l is not None and l.get("k") == "var" and l.get("d") == v.get("d"):
                    out |= _result_kinds(fb, f, n["args"][1], depth + 1)
        return out or {"?"}
    if k in ("call", "mcall") and depth < 4:
        gs = [g for g in fb.by_name.get(v.get("callee", ""), []) if g.ok]
        if len({(g.file, g.line) for g in gs}) == 1 and not v.get("virt"):
            out = set()
            for ret in common.returns(gs[0]):
                out |= _result_kinds(fb, gs[0], ret.node.get("v"), depth + 1)
            return out or {"?"}
    return {"?"}


def _ret_kinds(ctx, f, ret):
    return _result_kinds(ctx.fb(), f, ret.node.get("v"))


def _count_guards(fb, f, counter=IMPL + "::activeConnects"):
    """[(declaration element, variable)]: the RAII locals of f that count the caller in `counter` for the teardown gate.  Recognised by what
    they do, not by the name of their type: the local has a destructor, its initialiser is handed the counter, and the function that
    builds it (the guard's constructor, or a function returning a scope guard) increments what it was handed.  The matching decrement
    in the destructor and the lock it needs are C05-R4's clause."""
    out = []
    for e in f.stmts():
        if e.node.get("k") != "decl":
            continue
        for v in e.node["vars"]:
            init = v.get("init")
            if not isinstance(init, dict) or not any(x.get("k") == "member" and x.get("n") == counter for x in walk(init)):
                continue
            if not any(d.kind == "dtor" and d.raw.get("d") == v["d"] for d in f.elems()):
                continue        # a plain copy of the counter, not an RAII object
            i = strip_wrappers(init)
            while i is not None and i.get("k") == "ctor" and i.get("copy") and len([a for a in i.get("args", []) if not a.get("def")]) == 1:
                i = strip_wrappers([a for a in i["args"] if not a.get("def")][0])
            if i is None or i.get("k") not in ("ctor", "call", "mcall"):
                raise AnalysisBroken("%s: cannot tell what builds the guard `%s`" % (short(f.name), v["n"]))
            name = i.get("callee") if i["k"] != "ctor" else None
            if i["k"] == "ctor":
                t = (i.get("t") or v.get("t") or "").replace("const ", "").strip()
                name = t + "::<ctor>"
            gs = [g for g in fb.by_name.get(name, []) if g.ok]
            if not gs:
                raise AnalysisBroken("%s: the body of %s, which builds the guard `%s`, is not available" % (short(f.name), short(name or "?"), v["n"]))
            if any(n.get("k") == "un" and "++" in (n.get("op") or "") or n.get("k") in ("bin", "opcall") and n.get("op") == "+=" or
                   n.get("k") == "mcall" and last(n.get("callee", "")) == "fetch_add" for g in gs for n in g.nodes.values()):
                out.append((e, v))
    return out


def r1(ctx, r):
    f, la = _cs(ctx), c03._la(ctx)
    conns = [e for e in _engine_call(f, "connect") if la.mutexes(f, e)]   # the UDP shortcut runs before any lock
    allc = _engine_call(f, "connect")
    if not allc:
        raise AnalysisBroken("connectSync no longer calls engine->connect")
    wait = _wait(f)
    tcp = [e for e in allc if search(f, e, lambda x: x is wait, eh=False) is not None]
    r.instance(len(tcp))
    if not tcp:
        r.fail(f, None, "connect not followed by wait", "no engine connect call reaches the wait")
        return
    for c in tcp:
        ok, w = common.same_section(f, la, c, wait, SYNC)
        r.expect(ok and la.holds(f, c, SYNC), f, c, "connect…wait not one section",
                 "syncMutex is not held continuously from engine->connect() to the wait: the I/O thread's completion can run before the waiter is registered "
                 "and the wake-up is lost (connectSync then reports a timeout for a live session)", witness=w,
                 okdesc="engine->connect … wait_for under one continuous syncMutex hold")
        stores = [e for e in f.stmts() if e.node.get("k") == "opcall" and e.node.get("op") == "=" and
                  (access_path(e.node["args"][0]) or ("", ""))[-2:] == (IMPL + "::pendingConnects", "[]")]
        guards = [e for (e, v) in _count_guards(ctx.fb(), f)]
        r.instance()
        r.expect(any(elem_dominates(f, c, s) and elem_dominates(f, s, wait) for s in stores), f, c, "waiter not registered",
                 "pendingConnects[sid] is not stored between engine->connect() and the wait", okdesc="pendingConnects[sid] = op between connect and wait")
        r.instance()
        g_ok = [g for g in guards if elem_dominates(f, c, g) and elem_dominates(f, g, wait)]
        r.expect(bool(g_ok), f, c, "waiter not counted", "no ParkGuard on activeConnects is constructed between engine->connect() and the wait: teardown would not wait for this caller",
                 okdesc="ParkGuard(activeConnects) between connect and wait")


def r2(ctx, r):
    f, la = _cs(ctx), c03._la(ctx)
    vocab = Vocab(["shutting"])

    def leaf(n):
        if n.get("k") == "member" and n["n"] == IMPL + "::shuttingDown":
            return A("shutting")
        return None

    def eff(e):
        if e.kind == "stmt" and e.node.get("k") == "mcall" and (e.node.get("callee") == "std::unique_lock::unlock" or e.node.get("callee", "").startswith("std::condition_variable")):
            return [("havoc", "shutting")]
        if e.kind == "dtor" and e.raw.get("t", "").startswith(("std::unique_lock", "std::lock_guard")):
            return [("havoc", "shutting")]
        return None
    pa = PredAbs(f, vocab, leaf, eff, track_bools=True)
    for c in _engine_call(f, "connect"):
        if not la.mutexes(f, c):
            r.note("engine->connect at line %s runs before any lock (UDP immediate connect)" % c.line)
            continue
        r.instance()
        r.expect(pa.entails(c, Not(A("shutting"))) and la.holds(f, c, SYNC), f, c, "connect without fence",
                 "engine->connect() is reachable without having seen shuttingDown false in the same syncMutex section: a connect can be issued on an engine being torn down",
                 okdesc="engine->connect only after !shuttingDown under syncMutex")


def r3(ctx, r):
    fb, la = ctx.fb(), c03._la(ctx)
    lams = c03.lambdas(ctx)
    for which in ("onConnect", "onClose"):
        lam = lams[which]
        site = _completion_site(ctx, lam)
        r.instance()
        if site is None:
            r.fail(lam, None, "%s: no pending-connect branch" % which, "the %s engine callback no longer looks the session up in pendingConnects" % which)
            continue
        if len(site.hits) != 1:
            raise AnalysisBroken("%s: the waiter record is taken out of pendingConnects at %d places in %s" % (which, len(site.hits), short(site.body.name)))
        # the lookup may live in the lambda or in a transport member function the lambda calls (site.body); everything about the
        # completion is judged where the lookup is, everything about suppression in both
        body, pa, hit = site.body, site.pa, site.hits[0]
        where = "" if body is lam else " (in %s)" % short(body.name)
        # completion in the hit's critical section: result, done = true, erase
        dones = [e for (e, n, k) in common.field_writes(body, SCO + "::done")]
        resw = common.field_writes(body, SCO + "::result")
        ress = [e for (e, n, k) in resw]
        resvals = [_result_kinds(fb, body, common.assigned_value(body, n)) for (e, n, k) in resw]
        erases = common.member_calls_on(body, IMPL + "::pendingConnects", ("erase",))
        deep = _deep_helpers(fb, body)
        finders = {"done = true": lambda g: common.field_writes(g, SCO + "::done"), "result": lambda g: common.field_writes(g, SCO + "::result"),
                   "pendingConnects.erase": lambda g: common.member_calls_on(g, IMPL + "::pendingConnects", ("erase",))}
        for lab, lst in (("done = true", dones), ("result", ress), ("pendingConnects.erase", erases)):
            r.instance()
            ok = False
            for e in lst:
                s, w = common.same_section(body, la, hit, e, SYNC)
                if s and elem_dominates(body, hit, e):
                    ok = True
            if not ok:
                # the step may have moved one level further down (a helper called from where the lookup is): the critical-section
                # argument is not made across that call, so this is a refusal, not a finding
                moved = [g for g in deep if finders[lab](g)]
                if moved:
                    raise AnalysisBroken("%s: `%s` is done in %s, called from %s: the rule judges the completion only in the function that holds the lookup" % (which, lab, short(moved[0].name), short(body.name)))
            r.expect(ok, body, hit, "%s: %s missing" % (which, lab), "on a pending synchronous connect the %s callback%s does not set %s in the critical section that found the waiter" % (which, where, lab),
                     okdesc="%s: %s in the hit's critical section" % (which, lab))
        if which == "onConnect":
            r.instance()
            r.expect(any(v == {"ok"} for v in resvals), body, hit, "onConnect result", "onConnect does not complete the waiter with ok(sid)", okdesc="onConnect: result = ok(sid)")
        else:
            r.instance()
            r.expect(any(v == {"err"} for v in resvals), body, hit, "onClose result", "onClose does not complete the waiter with err(reason)", okdesc="onClose: result = err(reason)")
        # waiter is notified
        fns = [(body, pa)] + ([(lam, site.lam_pa)] if body is not lam else [])
        nots = [(g, e) for (g, gp) in fns for e in g.stmts() if e.node.get("k") == "mcall" and last(e.node["callee"]) in ("notify_one", "notify_all") and field_of(e.node.get("obj")) == SCO + "::cv"]
        pas = {g.sig: gp for (g, gp) in fns}
        r.instance()
        if not nots and [g for g in deep if any(e.node.get("k") == "mcall" and last(e.node["callee"]) in ("notify_one", "notify_all") and field_of(e.node.get("obj")) == SCO + "::cv" for e in g.stmts())]:
            raise AnalysisBroken("%s: the waiter is notified in a helper called from %s, which the rule does not follow" % (which, short(body.name)))
        r.expect(bool(nots) and all(pas[g.sig].entails(e, A("op")) for (g, e) in nots), body, hit, "%s: waiter not notified" % which, "the parked connectSync is not notified", okdesc="%s: op->cv.notify" % which)
        # suppression: nothing user-visible on the hit path
        n_eff = 0
        for (g, gp) in fns:
            for e in _global_effects(fb, g, skip=(body.sig,)):
                n_eff += 1
                r.instance()
                r.expect(gp.entails(e, Not(A("op"))), g, e, "%s: global effect on pending connect" % which,
                         "`%s` is reachable on the path where the session belongs to a parked connectSync: the application would see a callback for an id it was never given" % show(e.node)[:70],
                         okdesc="%s: %s only when no pending connect" % (which, show(e.node)[:40]))
        if not n_eff:
            raise AnalysisBroken("%s lambda has no user-visible effects to check" % which)


def _fn_sources(f, n, depth=0):
    """the fields a std::function value comes from: the member named, or — for a local — the members its definitions copy ('?' for anything else)"""
    n = strip_wrappers(n)
    if n is None:
        return {"?"}
    if n.get("k") == "member":
        return {n["n"]}
    if n.get("k") == "var" and n.get("parm") is None and depth < 3:
        out = set()
        for e in f.stmts():
            m = e.node
            if m.get("k") == "decl":
                for v in m["vars"]:
                    if v["d"] == n.get("d") and isinstance(v.get("init"), dict) and not _is_null(v["init"]):
                        out |= _fn_sources(f, v["init"], depth + 1)
            elif m.get("k") == "opcall" and m.get("op") == "=" and len(m.get("args", [])) == 2:
                l = strip_wrappers(m["args"][0])
                if l is not None and l.get("k") == "var" and l.get("d") == n.get("d"):
                    out |= _fn_sources(f, m["args"][1], depth + 1)
        return out or {"?"}
    if n.get("k") == "ctor" and len([a for a in n.get("args", []) if not a.get("def")]) == 1:
        return _fn_sources(f, [a for a in n["args"] if not a.get("def")][0], depth)
    return {"?"}


def r4(ctx, r):
    fb, cg = ctx.fb(), ctx.cg()
    for cls in ("iora::network::TcpEngine", "iora::network::UdpEngine"):
        f = fb.func(cls + "::connect")
        reach = cg.reach([f], follow_lambdas=True)
        r.instance()
        bad = []
        for g in fb.functions:
            if g.sig not in reach or not g.ok:
                continue
            if not (g.cls == cls or (g.kind == "lambda" and g.name.startswith(cls + "::"))):
                continue
            for e in g.stmts():
                n = e.node
                if n.get("k") == "call" and n.get("callee") in ("socket", "connect", "getaddrinfo", "send", "sendto", "recv", "bind", "accept4"):
                    bad.append((g, e, "socket call %s" % n["callee"]))
                if n.get("k") == "opcall" and n.get("op") == "()" and n.get("callee") == "std::function::operator()":
                    tgt = show(n["args"][0])
                    # which registered callback is it?  The invoked object is a member, or a local copy of one (copy-then-invoke): follow
                    # the local's definitions to the fields they read.  The one documented exception is the ERROR callback on an
                    # exception path (enqueue's catch handler: the command could not even be queued)
                    src = _fn_sources(g, n["args"][0])
                    if src and all(x.endswith("::onError") for x in src) and e.catch_id:
                        continue
                    bad.append((g, e, "callback %s%s" % (tgt, " (a copy of %s)" % ", ".join(sorted(short(x) for x in src)) if src and src != {tgt} and "?" not in src else "")))
        r.expect(not bad, bad[0][0] if bad else f, bad[0][1] if bad else None, "%s::connect does more than enqueue" % last(cls),
                 "%s::connect() reaches %s: it must only enqueue a command (connectSync registers its waiter after connect() returns)" % (last(cls), bad[0][2] if bad else ""),
                 okdesc="%s::connect reaches no socket call and no session callback (%d functions)" % (last(cls), len(reach)))


def _enqueues(fb, g, cls, depth=0):
    """elements of g that certainly queue a command: calls of enqueue, and calls of a method of the same engine class every path of
    which queues one (a close() that delegates to a helper still always queues)"""
    out = []
    for e in g.stmts():
        n = e.node
        if n.get("k") != "mcall":
            continue
        if last(n.get("callee", "")) == "enqueue":
            out.append(e)
        elif depth < 2 and n.get("callee", "").startswith(cls + "::") and not n.get("virt"):
            hs = [h for h in fb.by_name.get(n["callee"], []) if h.ok and h is not g and h.kind == "method"]
            if len(hs) == 1:
                he = _enqueues(fb, hs[0], cls, depth + 1)
                if he and search(hs[0], ("entry",), "exit", stop=lambda x, he=he: x in he, eh=False) is None:
                    out.append(e)
    return out


def r4b(ctx, r):
    """connectSync's timeout path relies on FIFO order: its Close is queued after the Connect, so it finds the session whatever
    the I/O thread has got round to.  That only holds if close(sid) ALWAYS queues a command — a close() that first looks the
    session up and drops the request for an id not yet inserted loses exactly the close of a connect still in the queue."""
    fb = ctx.fb()
    for cls in ("iora::network::TcpEngine", "iora::network::UdpEngine"):
        fs = [g for g in fb.funcs(cls + "::close") if g.ok and len(g.params) == 1]
        if len(fs) != 1:
            raise AnalysisBroken("%s::close(sid): %d definitions" % (last(cls), len(fs)))
        g = fs[0]
        enq = _enqueues(fb, g, cls)
        r.instance()
        w = search(g, ("entry",), "exit", stop=lambda x: x in enq, eh=False)
        r.expect(bool(enq) and w is None, g, None, "%s::close may not queue" % last(cls), "%s::close(sid) can return without queueing a Close command (%s): a close issued for an id whose Connect command has not been "
                 "dispatched yet — connectSync's timeout path, an application that gives up early — is lost, the connect then completes and nobody closes the session" % (last(cls), witness_str(g, w) if w else "no enqueue"),
                 okdesc="%s::close always queues" % last(cls))


def r5(ctx, r):
    f, la = _cs(ctx), c03._la(ctx)
    wait = _wait(f)
    vocab = Vocab(["done", "closed_issued", "shutting"])
    fb = ctx.fb()

    def leaf(n):
        if n.get("k") == "member" and n["n"] == SCO + "::done":
            return A("done")
        if n.get("k") == "member" and n["n"] == IMPL + "::shuttingDown":
            return A("shutting")
        # the value of a predicated condition-variable wait is the predicate's final value, evaluated under the re-acquired lock:
        # `const bool signalled = cv.wait_for(lk, t, pred)` / `if (cv.wait_for(...))` is read as the predicate's return expression
        if n.get("k") == "mcall" and n.get("callee", "").startswith("std::condition_variable") and last(n["callee"]) in common.CV_WAIT:
            args = [a for a in n.get("args", []) if not a.get("def")]
            if len(args) >= {"wait": 2, "wait_for": 3, "wait_until": 3}[last(n["callee"])]:
                pl = common._resolve_pred(fb, f, args[-1])
                rets = common.returns(pl) if pl is not None and pl.ok else []
                if len(rets) == 1 and rets[0].node.get("v") is not None:
                    return total(translate(rets[0].node["v"], leaf))
        return None
    closes = _engine_call(f, "close")

    def eff(e):
        if e.kind != "stmt":
            return None
        if e in closes:
            return [("set", "closed_issued", True)]
        n = e.node
        if n.get("k") == "mcall" and (n.get("callee") == "std::unique_lock::unlock" or n.get("callee", "").startswith("std::condition_variable")):
            return [("havoc", "done"), ("havoc", "shutting")]
        return None
    pa = PredAbs(f, vocab, leaf, eff, init=Not(A("closed_issued")), track_bools=True)
    # success returns: what the returned value is built from (the record's stored result, or Result::ok), looked through locals and helpers
    oks = [e for e in common.returns(f) if elem_dominates(f, wait, e) and _ret_kinds(ctx, f, e) & {"ok", "result"}]
    r.instance()
    r.expect(len(oks) >= 1, f, None, "no success return", "connectSync never returns the completed result", okdesc="success return present")
    for e in oks:
        r.instance()
        r.expect(pa.entails(e, And(A("done"), Not(A("closed_issued")))), f, e, "success after close / without done",
                 "connectSync can return the operation's result although the completion flag was not seen set, or after it has already issued engine->close() for that "
                 "session (known: %s): the caller would get a live-looking id for a session the transport closed" % ",".join(pa.describe(e)),
                 okdesc="result returned only when op->done and before any engine->close")
    # "a timed-out attempt leaves no open connection behind": every way out after the wait has seen the completion (the result is the
    # caller's business now), has seen the teardown fence (the drain closes the session), or has issued the close itself.  Decided on the
    # abstraction, so it holds however the tail is arranged (sequential ifs, one branch on the wait's value, a conditional return)
    for e in common.returns(f):
        if elem_dominates(f, wait, e):
            r.instance()
            r.expect(pa.entails(e, Or(A("done"), A("shutting"), A("closed_issued"))), f, e, "gives up without closing",
                     "connectSync can return at line %s after the wait with the connect neither completed nor the transport shutting down and without having issued engine->close(sid) "
                     "(known: %s): the attempt stays in flight, and if it completes later an open connection nobody owns is left behind" % (e.line, ",".join(pa.describe(e)) or "nothing"),
                     okdesc="return at line %s: completed, shutting down, or closed" % e.line)
    # timeout path: close is issued with the lock released, lock re-acquired before the guard dies
    r.instance()
    r.expect(len(closes) == 1, f, None, "timeout close", "connectSync issues engine->close() at %d sites, expected exactly one (timeout path)" % len(closes), okdesc="one timeout-path close")
    for c in closes:
        r.instance()
        r.expect(SYNC not in la.mutexes(f, c), f, c, "engine close under syncMutex", "engine->close() is called with syncMutex held (lock-order inversion with the I/O thread's callbacks)",
                 okdesc="engine->close with syncMutex released")
        r.instance()
        unlocks = [e for e in f.stmts() if e.node.get("k") == "mcall" and e.node.get("callee") == "std::unique_lock::unlock" and elem_dominates(f, e, c)]
        r.expect(bool(unlocks) and all(pa.entails(u, Not(A("done"))) for u in unlocks), f, c, "close of a completed connect",
                 "the timeout path releases the lock to close the session although the connect was seen completed (op->done) in that critical section",
                 okdesc="timeout close only when !op->done was seen before releasing the lock")
    # ParkGuard destructor runs under the lock on every path
    # (the guard is the RAII local that counts this caller in activeConnects, whatever its type is called: _count_guards)
    gds = {v["d"] for (ge, v) in _count_guards(ctx.fb(), f)}
    if not gds:
        raise AnalysisBroken("connectSync: no RAII local that counts the caller in activeConnects was recognised: the clauses about the guard's lifetime cannot be judged")
    for e in f.elems():
        if e.kind == "dtor" and e.raw.get("d") in gds:
            r.instance()
            r.expect(la.holds(f, e, SYNC), f, e, "ParkGuard dies without lock", "the ParkGuard destructor (counter decrement) runs on a path where syncMutex is not held",
                     okdesc="~ParkGuard under syncMutex (line %s)" % e.line)
            # … and not before the timeout path's call into the engine: while uncounted, a concurrent ~Transport completes its
            # handshake and frees the engine (and Impl) under that call
            for c in closes:
                r.instance()
                w = search(f, e, lambda x, c=c: x is c, eh=False)
                r.expect(w is None, f, c, "engine call after the count was released", "connectSync calls engine->close() after its ParkGuard has already been destroyed (%s): between the unlock and the return of that call "
                         "the caller is inside the engine but not counted in activeConnects, so a teardown from another thread can finish and free the engine under it (use-after-free)" % witness_str(f, w),
                         okdesc="engine->close() while still counted")


def r5b(ctx, r):
    """'…never reports success afterwards': every value connectSync can return once it has issued its timeout-path engine->close() is an
    error result.  The value is classified by what builds it (_result_kinds), through locals and through the bodies of the functions
    it comes from, so `return shuttingDownResult()` is an error and `return finalResult(op)` is whatever that helper can return."""
    f = _cs(ctx)
    closes = _engine_call(f, "close")
    what = {"ok": "Result::ok(...)", "result": "the waiter record's stored result (ok(sid) after a late completion)", "engine": "the engine's connect() result (ok(sid))", "err": "Result::err(...)"}
    for e in common.returns(f):
        if closes and any(search(f, c, lambda x, e=e: x is e, eh=False) is not None for c in closes):
            r.instance()
            kinds = _ret_kinds(ctx, f, e)
            if "?" in kinds and not kinds & {"ok", "result", "engine"}:
                raise AnalysisBroken("connectSync: the value returned at line %s after engine->close() cannot be traced to what builds it" % e.line)
            r.expect(kinds == {"err"}, f, e, "non-error after close", "a return reachable after engine->close() is not an error result: it can be %s — the caller would get a live-looking id for a "
                     "session the transport has just closed" % " / ".join(what[k] for k in sorted(kinds) if k in what and k != "err"), okdesc="return after close is err(...)")


def r7(ctx, r):
    fb, la = ctx.fb(), c03._la(ctx)
    for name in ("connectSync", "sendSync", "receiveSync", "setReadMode"):
        f = fb.func(TR + "::" + name, file_suffix=FILE)
        r.instance()
        guards = [b for b in f.blocks.values() if b.cond is not None and "getIoThreadId" in show(b.cond) and "get_id" in show(b.cond)]
        throws = [e for e in f.stmts() if e.node.get("k") == "throw"]
        locks = [e for e in f.stmts() if e.node.get("k") == "decl" and any(v["t"].startswith(("std::unique_lock", "std::lock_guard")) for v in e.node["vars"])]
        blocking = locks + _engine_call(f, "send")
        ok = bool(guards) and bool(throws)
        if ok:
            g = guards[0]
            # the throw is on the guard's true edge and every lock acquisition / engine call is after the guard
            from ..cfg import dominators
            dom = dominators(f, eh=False)
            ok = all(g.id in dom[x.block.id] for x in blocking) and any(elem_is_on_true_edge(f, g, t) for t in throws)
        r.expect(ok, f, None, "%s: no I/O-thread guard" % name, "%s does not test the calling thread against the engine's I/O thread (and throw) before it locks or blocks: "
                 "called from a callback it would deadlock" % name, okdesc="%s: thread-identity guard dominates the first lock" % name)


def elem_is_on_true_edge(f, block, elem):
    s = block.succs[0]
    if s is None:
        return False
    return search(f, ("block", s), lambda x: x is elem, eh=False) is not None


def _unctor(n):
    n = strip_wrappers(n)
    while n is not None and n.get("k") == "ctor" and len([a for a in n["args"] if not a.get("def")]) == 1:
        n = strip_wrappers(n["args"][0])
    return n


def _local_lambda(fb, f, n):
    """the Function of the local lambda of f that the call expression n invokes (None if n is no such call)"""
    if n is None or n.get("k") != "opcall" or n.get("op") != "()":
        return None
    for lf in fb.by_name.get(n.get("callee", ""), []):
        if lf.ok and lf.kind == "lambda" and lf.enclosing is f:
            return lf
    return None


def _captured_decl(g, x):
    """the declaration, in the enclosing function, of a variable the lambda g captures (matched through the capture list)"""
    if g.kind != "lambda" or g.enclosing is None:
        return None, None
    for c in getattr(g, "lambda_node", {}).get("caps", []):
        if c.get("n") == x.get("n") and c.get("d") is not None:
            return g.enclosing, _decls(g.enclosing).get(c["d"])
    return None, None


def _const_duration(f, n, depth=0):
    """the compile-time constant a duration expression stands for: a literal, a duration constructed from one, or a const local so
    initialised (also when the local belongs to the enclosing function and is captured by the lambda f)"""
    n = _unctor(n)
    if n is None:
        return None
    if n.get("k") in ("int", "float") and "cv" in n:
        return n["cv"]
    if n.get("k") == "var" and depth < 3 and n.get("parm") is None and "const" in (n.get("t") or ""):
        v = _decls(f).get(n.get("d"))
        if v is None or v["n"] != n.get("n"):
            f, v = _captured_decl(f, n)
        if v is not None and isinstance(v.get("init"), dict):
            return _const_duration(f, v["init"], depth + 1)
    return None


def _pure_bool_lambdas(fb, f, leaf):
    """leaf extended so that a condition `pred(x)` on a local lambda that is one `return <expression>` is read as that expression
    (extract-to-local-lambda of a repeated test).  Atoms of these rules do not depend on which variable is tested, so the lambda's
    parameter stands for the argument."""
    def leaf2(n):
        r = leaf(n)
        if r is not None:
            return r
        lf = _local_lambda(fb, f, n)
        if lf is not None:
            rets = common.returns(lf)
            roots = [e for e in lf.stmts() if "root" in e.raw]
            if len(rets) == 1 and len(roots) == 1 and rets[0].node.get("v") is not None:
                return translate(rets[0].node["v"], leaf2)
        return None
    return leaf2


def _attempts(fb, f):
    """where connectSyncCancellable starts a connectSync: [(site element in f, function holding the call, the connectSync call element,
    the site's call node when the call sits in a local lambda)].  A local lambda that calls connectSync makes each of its invocations a site."""
    def direct(g):
        return [e for e in g.stmts() if e.node.get("k") == "mcall" and last(e.node.get("callee", "")) == "connectSync"]
    out = [(e, f, e, None) for e in direct(f)]
    for e in f.stmts():
        lf = _local_lambda(fb, f, e.node)
        if lf is not None:
            for c in direct(lf):
                out.append((e, lf, c, e.node))
    # a connectSync call in a lambda of f that is never invoked by name here (stored, passed on) is a shape the rules do not follow
    for (ln, lf) in f.lambdas:
        if lf.ok and direct(lf) and not any(g is lf for (_, g, _, _) in out):
            raise AnalysisBroken("%s: connectSync is called in a lambda (%s) that is not invoked as a local here" % (short(f.name), short(lf.name)))
    return out


def _defs_of(g, t):
    """the values a local of g receives: initialiser and assignments"""
    defs = []
    for e in g.stmts():
        n = e.node
        if n.get("k") == "decl":
            for v in n["vars"]:
                if v["d"] == t.get("d") and v["n"] == t.get("n") and v.get("init") is not None:
                    defs.append(_unctor(v["init"]))
        if n.get("k") in ("bin", "opcall") and n.get("op") == "=":
            lhs = n["lhs"] if n["k"] == "bin" else n["args"][0]
            if lhs.get("k") == "var" and lhs.get("d") == t.get("d") and lhs["n"] == t["n"]:
                defs.append(_unctor(n["rhs"] if n["k"] == "bin" else n["args"][1]))
    return defs


def r8(ctx, r):
    fb = ctx.fb()
    f = fb.func("iora::network::ITransport::connectSyncCancellable")
    atts = _attempts(fb, f)
    if len(atts) < 1:
        raise AnalysisBroken("connectSyncCancellable no longer calls connectSync")
    sites = [a[0] for a in atts]
    vocab = Vocab(["cancelled"])

    def leaf(n):
        if n.get("k") == "mcall" and last(n.get("callee", "")) == "isCancelled":
            return A("cancelled")
        return None

    def eff(e):
        # the token can be cancelled at any time: knowledge lasts until the next blocking call
        if e.kind == "stmt" and any(e is x for x in sites):
            return [("havoc", "cancelled")]
        return None
    pa = PredAbs(f, vocab, _pure_bool_lambdas(fb, f, leaf), eff, track_bools=True)

    def bounded(g, t, site, depth=0):
        """the duration expression t of function g is min(<something>, <a constant polling interval>): the constant operand is what bounds
        the time to the next token test; it is recognised by its value (a literal, or a const local initialised from one), not by its name"""
        t = _unctor(t)
        if t is None or depth > 3:
            return False
        if t.get("k") == "call" and t.get("callee") == "std::min" and len(t.get("args", [])) >= 2:
            return sum(1 for a in t["args"][:2] if _const_duration(g, a) is not None) == 1
        if t.get("k") == "var" and t.get("parm") is not None and g is not f and site is not None:
            # a parameter of the local lambda: what each invocation passes (evaluated in the enclosing function)
            args = [a for a in site.get("args", [])[1:] if not a.get("def")]
            return t["parm"] < len(args) and bounded(f, args[t["parm"]], None, depth + 1)
        if t.get("k") == "var" and t.get("parm") is None:
            defs = _defs_of(g, t)
            return bool(defs) and all(bounded(g, d, site, depth + 1) for d in defs)
        return False
    for (site, g, c, sn) in atts:
        r.instance()
        r.expect(pa.entails(site, Not(A("cancelled"))), f, site, "connect without cancel test",
                 "connectSync is started without the cancellation token having been tested since the previous blocking call: a cancelled caller still opens a connection",
                 okdesc="isCancelled() tested before connectSync at line %s" % site.line)
        r.instance()
        r.expect(bounded(g, c.node["args"][-1], sn), g, c, "unbounded sub-wait", "the timeout handed to connectSync is not min(remaining, subInterval): cancellation is not observed within the polling interval",
                 okdesc="sub-timeout = min(remaining, subInterval)")


def r9(ctx, r):
    """a sub-attempt that succeeded is handed to the caller (or closed), never dropped"""
    fb = ctx.fb()
    for fname in ("iora::network::ITransport::connectSyncCancellable",):
        f = fb.func(fname)
        # attempt sites: direct connectSync calls and invocations of a local lambda that makes the call (_attempts)
        calls = [a[0] for a in _attempts(fb, f)]
        if not calls:
            raise AnalysisBroken("%s no longer calls connectSync" % last(fname))
        vocab = Vocab(["isok", "attempted"])

        def leaf(n):
            if n.get("k") == "mcall" and last(n.get("callee", "")) == "isOk" and (n.get("obj") or {}).get("k") == "var":
                return A("isok")
            if n.get("k") == "mcall" and last(n.get("callee", "")) == "isErr" and (n.get("obj") or {}).get("k") == "var":
                return Not(A("isok"))
            return None
        closes = [e for e in f.stmts() if e.node.get("k") == "mcall" and last(e.node.get("callee", "")) == "close"]

        def eff(e):
            if any(e is x for x in calls):
                return [("havoc", "isok"), ("set", "attempted", True)]
            if e in closes:
                return [("set", "isok", False)]
            return None
        pa = PredAbs(f, vocab, _pure_bool_lambdas(fb, f, leaf), eff, init=And(Not(A("attempted")), Not(A("isok"))))
        for ret in common.returns(f):
            v = strip_wrappers(ret.node.get("v")) if ret.node.get("v") else None
            while v is not None and v.get("k") == "ctor" and len(v.get("args", [])) == 1:
                v = strip_wrappers(v["args"][0])
            returns_result = v is not None and v.get("k") == "var" and "Result" in v.get("t", "")
            if returns_result:
                continue
            r.instance()
            r.expect(pa.entails(ret, Not(A("isok"))), f, ret, "successful connect dropped",
                     "%s can return an error at line %s although the connectSync attempt that just finished may have succeeded: the established session is neither handed "
                     "to the caller nor closed, so a session attributable to this call stays open" % (last(fname), ret.line), okdesc="error return at line %s only when the last attempt failed" % ret.line)


def r10(ctx, r):
    """The waiter that timed out leaves its pendingConnects entry behind so that the onClose caused by its own close(sid) is
    swallowed.  That only works if nothing removes the entry in between: the onConnect callback — the one other place that
    erases entries — must be able to tell a parked waiter from one that has given up, through a mark the timeout path sets
    under syncMutex before it releases the lock."""
    from ..finite import dominating_facts
    f, la = _cs(ctx), c03._la(ctx)
    lams = c03.lambdas(ctx)
    closes = _engine_call(f, "close")
    if len(closes) != 1:
        raise AnalysisBroken("connectSync: %d engine->close sites" % len(closes))
    tclose = closes[0]
    # the protocol this rule knows: connectSync itself does not erase the entry on the timeout path
    own_erases = [e for e in common.member_calls_on(f, IMPL + "::pendingConnects", ("erase",)) if search(f, e, lambda x: x is tclose, eh=False) is not None or search(f, tclose, lambda x, e=e: x is e, eh=False) is not None]
    # the function that holds onConnect's pending-connect branch: the lambda, or the transport helper it calls (see _completion_site)
    site = _completion_site(ctx, lams["onConnect"])
    lam = site.body if site is not None else lams["onConnect"]
    erases = common.member_calls_on(lam, IMPL + "::pendingConnects", ("erase",))
    if not erases:
        raise AnalysisBroken("onConnect: pendingConnects.erase not found")
    # marks: SyncConnectOp fields written in connectSync under syncMutex on the way to the timeout close (dominating it)
    marks = set()
    for fld in ctx.fb().record(SCO)["fields"]:
        name = SCO + "::" + fld["n"]
        for (e, n, k) in common.field_writes(f, name):
            if elem_dominates(f, e, tclose) and SYNC in la.mutexes(f, e):
                marks.add(name)
    for e in erases:
        r.instance()
        tested = set()
        for (c, t) in dominating_facts(lam, e):
            for n in walk(c):
                if n.get("k") == "member" and n["n"].startswith(SCO + "::"):
                    tested.add(n["n"])
        guard = tested & marks
        if tested and not guard and not marks:
            detail = "the erase is guarded by %s but connectSync's timeout path sets no SyncConnectOp field under syncMutex before it releases the lock" % ", ".join(sorted(short(x) for x in tested))
        elif tested and not guard:
            detail = "the erase tests %s, the timeout path marks %s" % (", ".join(sorted(short(x) for x in tested)), ", ".join(sorted(short(x) for x in marks)))
        else:
            detail = "the erase is unconditional once the entry is found"
        r.expect(bool(guard), lam, e, "late onConnect erases a timed-out waiter's entry",
                 "connectSync's timeout path keeps pendingConnects[sid] so that the onClose caused by its own close(sid) is swallowed, but a connect that completes after the waiter gave up "
                 "(before the Close command is processed) reaches this erase — %s: the following onClose finds no entry and fires the GLOBAL onClose (observers, tombstone) for an id connectSync never returned" % detail,
                 okdesc="erase only for a waiter not marked %s" % ", ".join(sorted(short(x) for x in guard)))
        if guard:
            # the completion (done/result) must be behind the same test: an abandoned waiter is not completed with ok(sid)
            for name in (SCO + "::done", SCO + "::result"):
                for (w, n, k) in common.field_writes(lam, name):
                    r.instance()
                    wt = set()
                    for (c, t) in dominating_facts(lam, w):
                        wt |= {x["n"] for x in walk(c) if x.get("k") == "member" and x["n"].startswith(SCO + "::")}
                    r.expect(bool(wt & guard), lam, w, "abandoned waiter completed", "%s is written for a waiter marked as given up" % short(name), okdesc="%s only for a parked waiter" % short(name))
    if own_erases and not r.failures:
        # the mark protocol holds, but connectSync also removes entries itself around the close: not the protocol decided here
        raise AnalysisBroken("connectSync erases pendingConnects around its timeout close: a protocol this rule does not know")
    # the global onConnect stays suppressed for the abandoned waiter: covered by R3 (every global effect entails op == null)
    # every way connectSync gives up while its entry stays registered needs the mark — not only the timeout: a waiter released
    # by the teardown fence returns ShuttingDown with the entry in place, and shutdownDrain's close for that id must still be
    # swallowed.  Returns after the registration that are not the success hand-over (`op->result`) and not behind `done`:
    reg = [e for e in f.stmts() if e.node.get("k") == "opcall" and e.node.get("op") == "=" and any(x.get("k") == "member" and x["n"] == IMPL + "::pendingConnects" for x in walk(e.node["args"][0]))]
    if len(reg) != 1:
        raise AnalysisBroken("connectSync: registration in pendingConnects not found")
    if marks:
        for ret in common.returns(f):
            if not elem_dominates(f, reg[0], ret) or "result" in _ret_kinds(ctx, f, ret):
                continue
            r.instance()
            marked = any(elem_dominates(f, e, ret) and SYNC in la.mutexes(f, e) for name in marks for (e, n, k) in common.field_writes(f, name))
            r.expect(marked, f, ret, "waiter gives up unmarked", "connectSync returns an error at line %d while its pendingConnects entry stays registered, without marking the op (%s) under syncMutex first: a connect completing "
                     "afterwards erases the entry, and the close that ends that session — the drain's, if this was the teardown wake-up — fires the GLOBAL onClose for an id nobody received"
                     % (ret.line, ", ".join(sorted(short(x) for x in marks))), okdesc="error return after registration is marked")


def run(ctx, ck):
    ck.run_rule("C04-R1", "register-before-completion: connect…wait is one syncMutex section containing the registration", "A1 same-section + A2", lambda r: r1(ctx, r))
    ck.run_rule("C04-R2", "engine connect only behind the shutting-down fence", "A5", lambda r: r2(ctx, r))
    ck.run_rule("C04-R3", "pending synchronous connects are completed and every global effect is suppressed", "A5 (op≠null) + A1", lambda r: r3(ctx, r))
    ck.run_rule("C04-R4", "engine connect() only enqueues", "A3 reachability", lambda r: r4(ctx, r))
    ck.run_rule("C04-R4b", "engine close(sid) always queues a command (a close before the connect is dispatched is not lost)", "A2 must-pass", lambda r: r4b(ctx, r))
    ck.run_rule("C04-R5", "success only on done and before close; timeout path closes outside the lock and never succeeds", "A5 ghost atom + A1", lambda r: r5(ctx, r))
    ck.run_rule("C04-R5b", "every value returned after the timeout-path close is an error result (traced through locals and helpers)", "dataflow over return values + A3", lambda r: r5b(ctx, r))
    ck.run_rule("C04-R7", "I/O-thread guard precedes the first lock in the synchronous operations", "A2 dominance", lambda r: r7(ctx, r))
    ck.run_rule("C04-R8", "cancellable connect tests the token before every attempt and bounds each sub-wait", "A5 + dataflow", lambda r: r8(ctx, r))
    ck.run_rule("C04-R10", "the entry of a timed-out waiter survives until the close it caused is reported", "protocol rule: mark under lock on the timeout path, tested before the other eraser", lambda r: r10(ctx, r))
    ck.run_rule("C04-R11", "connectSync blocks only in one wait bounded by the caller's timeout", "closed set of blocking calls + path search", lambda r: r11(ctx, r))
    ck.run_rule("C04-R12", "a stale connect/handshake timer cannot close a connect that completed (= C02-R4)", "A5 + A3", lambda r: __import__("iora_sa.props.c02", fromlist=["r4"]).r4(ctx, r))
    ck.run_rule("C04-R9", "a successful sub-attempt is returned or closed, never dropped", "A5", lambda r: r9(ctx, r))
