"""C14 — The XML parser accepts only balanced documents and reports them faithfully (DESIGN.md §2 C14)."""
from ..cfg import search, witness_str, dominated_by_edge, dominators, Forward, elem_dominates
from ..cursor import CursorProgram
from ..expr import show, walk, last, field_of, strip_wrappers, strip_casts, short, const_value, is_assign, assign_parts as _ap, strip_views
from ..facts import AnalysisBroken
from ..finite import compile_expr, NotPure, dominating_facts, interval_of, flatten_fact, eval_loopfree
from ..rules import common
from ..window import Window, lin, form, show_form, guard_ops, TOP, is_top

TITLE = "The XML parser accepts only balanced documents and reports them faithfully"
TECHNIQUE = 'interprocedural cursor-window abstract interpretation with inlined accessor predicates, validated-position analysis and counted-loop summaries; dominance / who-may-write rules for the element stack; table extraction for entities; exact evaluation of the loop-free UTF-8 encoder over all code points'
XP = "iora::parsers::xml::Parser"
XF = "iora/parsers/xml.hpp"
INPUT, CURF = XP + "::_input", XP + "::_cur"
CUR = "_cur"
SIZE_SYMS = {"_input.size()", "_input.length()"}

EXPLANATION = (
    "Faithfulness of content quantifies over all documents; decided statically are the structural necessary conditions in xml.hpp. "
    "R1 cursor discipline: interprocedural cursor-window abstract interpretation over every Parser method (accessor predicates such as "
    "eof() are inlined, peek()/get()/advance() get the meet of their call sites as pre-condition and a relative post-condition, counted "
    "advance loops are summarised, positions validated by compare()/find()/explicit tests license the catch-up loops) plus one window "
    "per local index over _input/entity slices: every read is inside its buffer, the cursor never passes the end (a helper that advances up to a "
    "position parameter is analysed under `position <= size`, which every call site must establish: find() hit + match length, compare/substr "
    "equality, size test), every slice handed "
    "out in a token starts at a snapshot of the cursor, and error/Eof offsets are the cursor. R2 tag balance: the element stack is "
    "pushed only for a non-empty start tag, popped only behind the `stack non-empty` and `name equals top` tests, Eof is emitted only "
    "with an empty stack, errors are sticky. R3 every configured limit is tested on every path that grows the bounded quantity. "
    "R4 entity decoding recognises exactly the five predefined names and numeric references, everything else is an error, and nothing "
    "in xml.hpp opens files or sockets (the table is read through a pure look-up helper if there is one). R5 numeric references: every byte "
    "between `&#`/`&#x` and `;` is consumed as a digit — digit loops start right behind the prefix in the radix it selects and each iteration "
    "either updates the accumulator with a digit value that is exact on its guard-delimited byte range or fails; a std::from_chars decode is "
    "accepted only behind tests of the error code AND of ptr == end of the body; accumulators are range-tested inside the loop before they "
    "can wrap; the UTF-8 encoder is evaluated exactly (all of U+0…U+10FFFF, surrogates and larger values rejected) and its verdict is "
    "propagated. Locals are found by dataflow (the code point is what encodeUtf8 receives, the body is the first parameter), never by name. R6 SAX and DOM consume only Parser::next()/current() and their "
    "switches cover every TokenKind.")
# exempt from the function-inventory guard (report.py): these rules hold for, or look into, functions they have never seen; where a clause of theirs
# cannot follow a shape it refuses by itself (AnalysisBroken) instead of reporting
FOLLOWS_HELPERS = {"C14-R1": "the cursor-window analysis is interprocedural over EVERY Parser method (summaries, entry requirements and limit-parameter obligations are computed for "
                             "new helpers like for old ones); slice, token-view and offset clauses are universal per method / follow field-filling helpers",
                   "C14-R4": "the entity table is read through a pure look-up helper, readDoctype's callee set is closed over family helpers, the I/O deny list covers every function of "
                             "xml.hpp; the dispatch clauses refuse when the '#' test or the branch on appendCharRef's result is not where they look",
                   "C14-R5": "a digit-value helper of the byte is evaluated exactly over all 256 bytes, one-line pure helpers of the encoder are inlined before the exact "
                             "evaluation; any other call that produces or receives the code point, and anything outside the pure fragment, is a refusal by the rule itself",
                   "C14-R6": "callback invocations are resolved through local lambdas / helpers that receive the callback, DOM attachments and entity decoding are followed into the "
                             "builder's helpers; handing the parser, the callbacks object or the node stack to another function is a refusal"}
NOT_DECIDED = ["that the slices are the *right* slices (content faithfulness beyond bounds, snapshots and table checks)", "UTF-8 validity of the input", "line/column accounting",
               "namespace processing", "agreement with expat"]


def assign_parts(n):
    if n.get("k") in ("bin", "opcall") and is_assign(n) and n.get("op") == "=":
        p = _ap(n)
        return p[0], p[2]
    return None


def xp(ctx, name, nparams=None):
    fs = [f for f in ctx.fb().funcs(XP + "::" + name, XF) if f.ok and (nparams is None or len(f.params) == nparams)]
    if len(fs) != 1:
        raise AnalysisBroken("xml::Parser::%s: %d definitions" % (name, len(fs)))
    return fs[0]


def methods(ctx):
    fs = [f for f in ctx.fb().methods_of(XP) if f.ok and f.kind == "method"]
    if len(fs) < 28:
        raise AnalysisBroken("xml::Parser: only %d methods with a CFG (floor 28)" % len(fs))
    return fs


def is_input(n):
    n = strip_casts(n)
    return n is not None and field_of(n) == INPUT


def is_cur(n):
    n = strip_casts(n)
    return n is not None and n.get("k") == "member" and field_of(n) == CURF


def local_writes(f, name):
    """elements that modify local variable `name` (assignment, ++/--, compound assignment, passed by non-const reference)"""
    out = []
    for e in f.stmts():
        n = e.node
        if n.get("k") == "un" and ("++" in n.get("op", "") or "--" in n.get("op", "")) and strip_casts(n["v"]).get("k") == "var" and strip_casts(n["v"])["n"] == name:
            out.append(e)
        elif n.get("k") in ("bin", "opcall") and is_assign(n):
            l = strip_casts(_ap(n)[0])
            if l.get("k") == "var" and l["n"] == name:
                out.append(e)
    return out


def snapshots(f):
    """locals declared `= _cur` and never modified: positions <= cursor <= size for the rest of the function"""
    out = {}
    for e in f.stmts():
        if e.node.get("k") == "decl":
            for v in e.node["vars"]:
                i = v.get("init")
                if i is not None and is_cur(i) and not local_writes(f, v["n"]):
                    out[v["n"]] = e
    return out


def cursor_moves(f, prog_names):
    """elements of f that (may) move the member cursor"""
    out = []
    for e in f.stmts():
        n = e.node
        if n.get("k") == "un" and ("++" in n.get("op", "")) and is_cur(n["v"]):
            out.append(e)
        elif n.get("k") in ("bin",) and is_assign(n) and is_cur(n["lhs"]):
            out.append(e)
        elif n.get("k") == "mcall" and n.get("callee") in prog_names:
            out.append(e)
    return out


def unit_advancers(funcs):
    """family functions that advance the cursor by exactly one on every path (get(), advance())"""
    unit = set()
    changed = True
    while changed:
        changed = False
        for f in funcs:
            if f.name in unit:
                continue
            incs = [e for e in f.stmts() if e.node.get("k") == "un" and "++" in e.node.get("op", "") and is_cur(e.node["v"])]
            calls = [e for e in f.stmts() if e.node.get("k") == "mcall" and e.node.get("callee") in {g.name for g in funcs}]
            others = [e for e in f.stmts() if e.node.get("k") == "bin" and is_assign(e.node) and is_cur(e.node["lhs"])]
            movers = incs + [c for c in calls if c.node["callee"] in unit]
            nonunit = [c for c in calls if c.node["callee"] not in unit]
            if len(movers) == 1 and not nonunit and not others and elem_dominates(f, movers[0], [e for e in f.blocks[f.exit].elems][0] if f.blocks[f.exit].elems else movers[0], eh=False) is not None:
                # the single mover is on every path: it dominates every return / the exit
                m = movers[0]
                if search(f, ("entry",), "exit", stop=lambda x: x is m, eh=False) is None and search(f, m, lambda x: x is m, eh=False) is None:
                    unit.add(f.name)
                    changed = True
    return unit


def _count_down(f, b, j, unit):
    """(declaration element of j, S, unit call) for `for (j = S; j > 0; --j) unit();` headed by block b, S an unmodified local / parameter"""
    body, work, seen = [], [b.succs[0]], set()
    while work:
        x = work.pop()
        if x is None or x == b.id or x in seen:
            continue
        seen.add(x)
        body.extend(e for e in f.blocks[x].elems if e.kind == "stmt" and "root" in e.raw)
        work.extend(f.blocks[x].succs)
    calls = [e for e in body if e.node.get("k") == "mcall" and e.node.get("callee") in unit]
    decs = [e for e in body if e.node.get("k") == "un" and "--" in e.node.get("op", "") and strip_casts(e.node["v"]).get("n") == j["n"]]
    if len(body) != 2 or len(calls) != 1 or len(decs) != 1 or len(local_writes(f, j["n"])) != 1:
        return None
    decl = [(e, v) for e in f.stmts() if e.node.get("k") == "decl" for v in e.node["vars"] if v["n"] == j["n"] and strip_casts(v.get("init") or {}).get("k") == "var"]
    if len(decl) != 1:
        return None
    sname = strip_casts(decl[0][1]["init"])["n"]
    if local_writes(f, sname):
        return None
    return decl[0][0], sname, calls[0]


def counted_loops(f, unit):
    """`for (j = 0; j < S; ++j) unit();`  ->  {decl elem of j: (S symbol, call elem)}"""
    out = {}
    for b in f.blocks.values():
        if not (b.term and b.term.get("k") == "ForStmt" and b.cond is not None):
            continue
        cp = next((q for q in common.cmp_both(b.cond) if q[0] == "<"), None)
        if not cp or cp[0] != "<":
            continue
        j, s = strip_casts(cp[1]), strip_casts(cp[2])
        if const_value(j) == 0 and s.get("k") == "var":
            # count-down variant `for (j = S; j > 0; --j) unit();` (stored as `0 < j`): S advances as well
            down = _count_down(f, b, s, unit)
            if down is not None:
                out[down[0]] = (down[1], down[2])
            continue
        if j.get("k") != "var" or s.get("k") != "var":
            continue
        # body: blocks from the true edge back to b
        body, work = [], [b.succs[0]]
        seen = set()
        while work:
            x = work.pop()
            if x is None or x == b.id or x in seen:
                continue
            seen.add(x)
            body.extend(e for e in f.blocks[x].elems if e.kind == "stmt" and "root" in e.raw)
            work.extend(f.blocks[x].succs)
        calls = [e for e in body if e.node.get("k") == "mcall" and e.node.get("callee") in unit]
        incs = [e for e in body if e.node.get("k") == "un" and "++" in e.node.get("op", "") and strip_casts(e.node["v"]).get("n") == j["n"]]
        if len(body) != 2 or len(calls) != 1 or len(incs) != 1:
            continue
        # j starts at 0 in the pre-header, S is not modified in the loop
        decl = [e for e in f.stmts() if e.node.get("k") == "decl" and any(v["n"] == j["n"] and const_value(strip_casts(v.get("init") or {})) == 0 for v in e.node["vars"])]
        if len(decl) != 1 or len(local_writes(f, j["n"])) != 1:
            continue
        if any(w.block.id in seen or w.block.id == b.id for w in local_writes(f, s["n"])):
            continue
        out[decl[0]] = (s["n"], calls[0])
    return out


def valid_in(fm, st):
    """the position `fm` is known <= _input.size(): some established form has the same symbols and at least its constant"""
    return fm is not None and any(g[1] == fm[1] and g[0] >= fm[0] for g in (st or ()))


class ValidBounds:
    """forward analysis: set of linear forms over locals (and the cursor) known to be <= _input.size().

    Sources: `P < size` / `P <= size`; `_input.compare(P, s.size(), s) == 0`; `_input.substr(P, s.size()) == s` (substr clamps at the end of the
    input, so equality with s means all s.size() bytes were there); `p = _input.find(x[, from])` with `p != npos` (p + length of x); and the
    function's *limit parameters* (positions every call site was shown to establish, see cursor_program).  A form over the cursor dies when the
    cursor moves, a form over a local when the local is written."""

    def __init__(self, f, movers=(), assumed=(), pos_helpers=()):
        self.f = f
        self.movers = set(id(m) for m in movers)
        self.find_len = {}
        for e in f.stmts():
            if e.node.get("k") == "decl":
                for v in e.node["vars"]:
                    i = strip_casts(strip_wrappers(v.get("init") or {}))
                    if i.get("k") == "mcall" and i.get("callee") in pos_helpers and strip_casts(i.get("obj") or {"k": "this"}).get("k") == "this":
                        # `p = helper()` with a family helper that returns npos or a position < size (position_helpers): like a one-byte find() hit
                        self.find_len[v["n"]] = form(1, (v["n"],))
                    if i.get("k") == "mcall" and is_input(i.get("obj")) and last(i.get("callee", "")) == "find" and i.get("args"):
                        lit = [x for x in walk(i["args"][0]) if x.get("k") in ("str", "char")]
                        what = strip_views(i["args"][0])
                        if len(lit) == 1:
                            self.find_len[v["n"]] = form(len(lit[0]["v"].encode()) if lit[0]["k"] == "str" else 1, (v["n"],))
                        elif what is not None and what.get("k") == "var" and "string_view" in (what.get("t") or "") and not local_writes(f, what["n"]):
                            # find(<string_view local/parameter>): the match is what.size() bytes long
                            self.find_len[v["n"]] = form(0, (v["n"], what["n"] + ".size()"))
        self.flow = Forward(f, frozenset(form(0, (p,)) for p in assumed), self._transfer, lambda a, b: a & b, edge=self._edge, eh=False)
        self.at_cond = {}
        for b in f.blocks.values():
            if b.cond is not None:
                st = self.flow.at_block_end(b)
                if st is not None:
                    for x in walk(b.cond):
                        if x.get("id") is not None:
                            self.at_cond[x["id"]] = st

    def _transfer(self, st, e):
        if e.kind != "stmt" or not st:
            return st
        n = e.node
        killed = None
        if id(e) in self.movers:
            st = frozenset(x for x in st if CUR not in x[1])
        if n.get("k") == "un" and ("++" in n.get("op", "") or "--" in n.get("op", "")) and strip_casts(n["v"]).get("k") == "var":
            killed = strip_casts(n["v"])["n"]
        elif n.get("k") in ("bin", "opcall") and is_assign(n) and strip_casts(_ap(n)[0]).get("k") == "var":
            killed = strip_casts(_ap(n)[0])["n"]
        elif n.get("k") == "decl":
            for v in n["vars"]:
                st = frozenset(x for x in st if v["n"] not in x[1] and not any(s.startswith(v["n"] + ".") for s in x[1]))
                # a local that NAMES an established position (`const std::size_t stop = pos + endSeq.size();`) is one itself, until it is written
                fm = lin(v["init"]) if isinstance(v.get("init"), dict) else None
                if fm is not None and fm[1] and v["n"] not in fm[1] and valid_in(fm, st):
                    st = st | frozenset([form(0, (v["n"],))])
        if killed:
            st = frozenset(x for x in st if killed not in x[1] and not any(s.startswith(killed + ".") for s in x[1]))
        return st

    def _edge(self, st, b, si):
        lab = b.edge_label(si)
        if lab is not True and lab is not False or b.cond is None:
            return st
        add = set()
        for (c, truth) in flatten_fact(b.cond, lab):
            for cp in common.cmp_both(c):
                op, l, r = cp
                if not truth:
                    op = {"<": ">=", ">=": "<", ">": "<=", "<=": ">", "==": "!=", "!=": "=="}[op]
                fl, fr = lin(l), lin(r)
                if fl is not None and fr is not None and fr[0] == 0 and len(fr[1]) == 1 and fr[1][0] in SIZE_SYMS and CUR not in fl[1] and fl[1]:
                    if op == "<":
                        add.add(form(fl[0] + 1, fl[1]))
                    elif op == "<=":
                        add.add(fl)
                ls, rs = strip_casts(strip_wrappers(l)), strip_casts(strip_wrappers(r))
                if op == "==" and ls.get("k") == "mcall" and is_input(ls.get("obj")) and last(ls.get("callee", "")) == "compare" and len(ls.get("args", [])) == 3 and const_value(rs) == 0:
                    p, cnt, s = ls["args"]
                    fp = lin(p)
                    ssz = show(strip_casts(strip_wrappers(cnt)))
                    sname = strip_casts(strip_wrappers(s))
                    while sname.get("k") == "ctor" and sname.get("args"):
                        sname = strip_casts(strip_wrappers(sname["args"][0]))
                    if fp is not None and ssz == show(sname) + ".size()":
                        add.add(form(fp[0], list(fp[1]) + [ssz]))
                # `_input.substr(P, s.size()) == s`: the slice is min(s.size(), size - P) bytes long, so equality means P + s.size() <= size
                lv, rv = strip_views(l), strip_views(r)
                if op == "==" and lv is not None and rv is not None and lv.get("k") == "mcall" and is_input(lv.get("obj")) and last(lv.get("callee", "")) == "substr" and rv.get("k") == "var":
                    sa = [a for a in lv.get("args", []) if not a.get("def")]
                    if len(sa) == 2:
                        fp, ssz = lin(sa[0]), show(strip_casts(strip_wrappers(sa[1])))
                        if fp is not None and ssz in (rv["n"] + ".size()", rv["n"] + ".length()") and not local_writes(self.f, rv["n"]):
                            add.add(form(fp[0], list(fp[1]) + [rv["n"] + ".size()"]))
                if op == "!=" and ls.get("k") == "var" and ls["n"] in self.find_len and "npos" in show(rs):
                    add.add(self.find_len[ls["n"]])
        return st | frozenset(add) if add else st


def limit_params(funcs, names):
    """{function: {parameter name: index}} of *limit parameters*: an unmodified integer parameter that bounds a cursor advance — it occurs in a
    comparison with the member cursor (`_cur < p`), or is handed on unchanged as a limit argument of another family function.  Inside the function
    it is assumed to be a position <= _input.size(); every call site has to establish that (obligation `limit argument`, r1)."""
    out = {f: {} for f in funcs}
    by = {}
    for f in funcs:
        by.setdefault(f.name, []).append(f)
    changed = True
    while changed:
        changed = False
        for f in funcs:
            if f.access != "private":
                continue            # a public method can be called with anything: nothing is assumed about its parameters
            for j, p in enumerate(f.params):
                if p["n"] in out[f] or "long" not in p["t"] or "&" in p["t"] or "*" in p["t"] or local_writes(f, p["n"]):
                    continue
                hit = False
                for b in f.blocks.values():
                    for q in (common.cmp_both(strip_casts(b.cond)) if b.cond is not None else []):
                        fm = lin(q[2])
                        if q[0] in ("<", "<=") and is_cur(q[1]) and fm is not None and p["n"] in fm[1]:
                            hit = True
                for e in f.stmts():
                    n = e.node
                    if n.get("k") == "mcall" and n.get("callee") in by:
                        for g in by[n["callee"]]:
                            for pn, k in out[g].items():
                                if k < len(n["args"]) and strip_casts(n["args"][k]).get("k") == "var" and strip_casts(n["args"][k])["n"] == p["n"]:
                                    hit = True
                if hit:
                    out[f][p["n"]] = j
                    changed = True
    return out


def cursor_program(ctx):
    funcs = methods(ctx)
    names = {f.name for f in funcs}
    unit = unit_advancers(funcs)
    if not unit:
        raise AnalysisBroken("no unit-advance accessor (get()/advance()) recognised")
    snaps = {f: snapshots(f) for f in funcs}
    loops = {f: counted_loops(f, unit) for f in funcs}
    loop_calls = {f: {c for (_, c) in loops[f].values()} for f in funcs}
    movers = {f: cursor_moves(f, names) for f in funcs}
    limits = limit_params(funcs, names)
    bounds = {f: ValidBounds(f, movers[f], sorted(limits[f])) for f in funcs}
    # position helpers: a family method that does not move the cursor and whose every return is `npos` or a position P with P < size established at
    # the return (`for (pos = _cur; pos < size; ++pos) … return pos;`).  Its callers may treat `p = helper(); p != npos` like a find() hit.
    pos_helpers = set()
    for g in funcs:
        rets = common.returns(g)
        if movers[g] or not rets or "long" not in (g.raw.get("ret") or g.raw.get("rettype") or "long"):
            continue
        good, some = True, False
        for e in rets:
            v = strip_casts(e.node.get("v") or {})
            if "npos" in show(v):
                continue
            fm = lin(v)
            stt = bounds[g].flow.before(e)
            if fm is None or not fm[1] or stt is None or not valid_in(form(fm[0] + 1, fm[1]), stt):
                good = False
            some = True
        if good and some:
            pos_helpers.add(g.name)
    if pos_helpers:
        bounds = {f: ValidBounds(f, movers[f], sorted(limits[f]), pos_helpers) for f in funcs}

    def alias_ok(f, name, use_elem):
        """snapshot `name` still equals the cursor at use_elem: no cursor move on a path from its declaration to the use"""
        d = snaps[f].get(name)
        if d is None:
            return False
        ms = movers[f]
        for m in ms:
            if m in loop_calls[f]:
                continue
            if search(f, d, lambda x: x is m, eh=False) is not None and search(f, m, lambda x: x is use_elem, eh=False, include_start=False) is not None:
                return False
        return True

    def canon_for(f, use_elem):
        def canon(fm):
            if fm is None:
                return None
            syms = []
            for s in fm[1]:
                if s in snaps[f] and use_elem is not None and alias_ok(f, s, use_elem):
                    syms.append(CUR)
                else:
                    syms.append(s)
            return form(fm[0], syms)
        return canon

    def local_index(f, fm):
        return fm is not None and len(fm[1]) == 1 and fm[1][0] != CUR and fm[1][0] not in snaps[f]

    def elem_ops(f, e):
        n = e.node
        k = n.get("k")
        ops = []
        if e in loops[f]:
            s, _ = loops[f][e]
            return [("need", form(0, (s,)), "advance() × %s" % s), ("adv", form(0, (s,)))]
        if k == "opcall" and n.get("op") == "[]" and is_input(n["args"][0]):
            idx = strip_casts(n["args"][1])
            if idx.get("k") == "un" and idx.get("op") == "post++":
                return None          # the read is covered by the advance requirement at the increment
            fm = canon_for(f, e)(lin(idx))
            if fm is not None and list(fm[1]).count(CUR) == 1:
                ops.append(("need", form(fm[0] + 1, [s for s in fm[1] if s != CUR]), "_input[%s]" % show(idx)))
            elif fm is not None and (local_index(f, fm) or (len(fm[1]) == 1 and fm[1][0] in snaps[f])):
                return None          # local index: separate window
            else:
                ops.append(("need", TOP, "_input[%s] (index not linear in the cursor)" % show(idx)))
        elif k == "un" and n.get("op") in ("++", "pre++", "post++") and is_cur(n["v"]):
            ops.append(("adv", form(1), "_cur++" if n["op"] == "post++" else "++_cur"))
        elif k == "un" and "--" in n.get("op", "") and is_cur(n["v"]):
            ops.append(("need", TOP, "--_cur (cursor moves backwards)"))
        elif k == "bin" and n.get("op") == "+=" and is_cur(n["lhs"]):
            fm = lin(n["rhs"])
            if fm is None or fm[0] < 0:
                ops.append(("need", TOP, "_cur += %s" % show(n["rhs"])))
                ops.append(("reset", None))
            else:
                ops.append(("adv", fm, "_cur += %s" % show(n["rhs"])))
        elif k == "bin" and n.get("op") in ("=", "-=") and is_cur(n["lhs"]):
            ops.append(("need", TOP, "_cur %s %s (cursor re-based)" % (n["op"], show(n["rhs"]))))
            ops.append(("reset", None))
        elif k == "decl":
            for v in n["vars"]:
                if const_value(strip_casts(v.get("init") or {})) == 0 and "long" in (v.get("t") or ""):
                    ops.append(("zerosym", v["n"]))
                else:
                    ops.append(("kill", v["n"]))
        elif k == "un" and n.get("op") in ("++", "pre++", "post++") and strip_casts(n["v"]).get("k") == "var":
            ops.append(("incsym", strip_casts(n["v"])["n"], 1))
        elif k in ("bin", "opcall") and is_assign(n) and strip_casts(_ap(n)[0]).get("k") == "var":
            ops.append(("kill", strip_casts(_ap(n)[0])["n"]))
        return ops or None

    inl = {}
    for g in funcs:
        roots = [e for e in g.stmts() if "root" in e.raw]
        if len(roots) == 1 and roots[0].node.get("k") == "ret" and isinstance(roots[0].node.get("v"), dict) and const_value(strip_casts(roots[0].node["v"])) is None \
                and not any(x.get("k") in ("mcall", "call") and x.get("callee") in names for x in walk(roots[0].node["v"])):
            inl[g.name] = roots[0].node["v"]

    def edge_ops(f, c, truth, prog):
        use = f.elem_for(c)

        def extra(x, t):
            x = strip_casts(x)
            g = prog.callee(x) if x.get("k") in ("mcall", "call") else None
            if g is not None:
                if g.name in inl:
                    return guard_ops(inl[g.name], t, CUR, SIZE_SYMS)
                return [("atleast", prog.post_true[g] if t else prog.post_false[g])]
            # subtraction form `_input.size() - _cur  op  n` (no wrap: the class invariant is _cur <= size): what remains is compared directly
            for q in common.cmp_both(x):
                l_ = strip_casts(q[1])
                if l_ is not None and l_.get("k") == "bin" and l_.get("op") == "-" and is_cur(l_["rhs"]) and show(strip_casts(l_["lhs"])) in SIZE_SYMS:
                    fm = lin(q[2])
                    op = q[0] if t else {"<": ">=", ">=": "<", ">": "<=", "<=": ">", "==": "!=", "!=": "=="}[q[0]]
                    if fm is not None and CUR not in fm[1] and op in (">=", ">", "=="):
                        return [("atleast", form(fm[0] + (1 if op == ">" else 0), fm[1]))]
            cp = next((q for q in common.cmp_both(x) if is_cur(q[1])), None)
            if cp and is_cur(cp[1]):
                op = cp[0] if t else {"<": ">=", ">=": "<", ">": "<=", "<=": ">", "==": "!=", "!=": "=="}[cp[0]]
                fm = lin(cp[2])
                valid = bounds[f].at_cond.get(x.get("id"), frozenset())
                if fm is not None and op == "<" and valid_in(fm, valid):
                    return [("atleast", form(1))]
                if fm is not None and op == "<=" and valid_in(form(fm[0] + 1, fm[1]), valid):
                    return [("atleast", form(1))]
            return None
        return guard_ops(c, truth, CUR, SIZE_SYMS, extra, canon_for(f, use))

    nxt = xp(ctx, "next")
    roots = {nxt: form(0)}
    prog = CursorProgram(funcs, roots, elem_ops, edge_ops, skip_call=lambda f, e: e in loop_calls[f])
    for g in funcs:
        if g.name in unit and prog.rel_any[g] != -1 and not prog.violations:
            raise AnalysisBroken("%s is used as a unit-advance accessor but its relative summary is %s" % (last(g.name), prog.rel_any[g]))
    prog.limits, prog.bounds = limits, bounds
    return prog, funcs, snaps, loops, unit


def buffers_in(f):
    """(buffer text, index var) pairs for subscripts with a local index"""
    out = set()
    for e in f.stmts():
        n = e.node
        if n.get("k") == "opcall" and n.get("op") == "[]":
            b = strip_casts(n["args"][0])
            t = (b.get("t") or "")
            if "string_view" not in t and "basic_string" not in t:
                continue
            idx = strip_casts(n["args"][1])
            if idx.get("k") == "un" and idx.get("op") == "post++":
                idx = strip_casts(idx["v"])
            fm = lin(idx)
            if fm is not None and len(fm[1]) == 1 and strip_casts(idx).get("k") in ("var", "bin") and fm[1][0] != CUR:
                out.add((show(b), fm[1][0]))
    return out


def local_window(f, buf, var, snaps):
    sizes = {buf + ".size()", buf + ".length()"}

    def el(e):
        n = e.node if e.kind == "stmt" else None
        if n is None:
            return None
        if n.get("k") == "opcall" and n.get("op") == "[]" and show(strip_casts(n["args"][0])) == buf:
            idx = strip_casts(n["args"][1])
            if idx.get("k") == "un" and idx.get("op") == "post++":
                return None
            fm = lin(idx)
            if fm and list(fm[1]) == [var]:
                return [("need", form(fm[0] + 1), "%s[%s]" % (buf, show(idx)))]
        if n.get("k") == "un" and n.get("op") in ("++", "pre++", "post++") and strip_casts(n["v"]).get("n") == var and strip_casts(n["v"]).get("k") == "var":
            par = f.nodes.get(f.parent.get(n.get("id")))
            while par is not None and par.get("k") == "cast":
                par = f.nodes.get(f.parent.get(par.get("id")))
            if n["op"] == "post++" and par is not None and par.get("k") == "opcall" and par.get("op") == "[]" and show(strip_casts(par["args"][0])) == buf:
                return [("adv", form(1), "%s[%s++]" % (buf, var))]
            return [("adv", form(1))]
        if n.get("k") in ("bin", "opcall") and is_assign(n) and strip_casts(_ap(n)[0]).get("k") == "var" and strip_casts(_ap(n)[0])["n"] == var:
            return [("reset", None)]
        if n.get("k") == "decl" and any(v["n"] == var for v in n["vars"]):
            return [("reset", None)]
        return None
    return Window(f, lambda c, t: guard_ops(c, t, var, sizes), el, init=None)


def const_index_reads(f):
    out = []
    for e in f.stmts():
        n = e.node
        if n.get("k") == "opcall" and n.get("op") == "[]":
            b = strip_casts(n["args"][0])
            t = (b.get("t") or "")
            if "string_view" not in t and "basic_string" not in t:
                continue
            k = const_value(strip_casts(n["args"][1]))
            if k is not None:
                out.append((e, show(b), k))
    return out


def const_index_ok(f, e, buf, k):
    for (c, truth) in dominating_facts(f, e):
        t = show(strip_casts(c))
        cp = common.cmp_parts(strip_casts(c))
        if cp and show(strip_casts(cp[1])) in (buf + ".size()", buf + ".length()") and const_value(cp[2]) is not None:
            op = cp[0] if truth else {"<": ">=", ">=": "<", ">": "<=", "<=": ">", "==": "!=", "!=": "=="}[cp[0]]
            cv = const_value(cp[2])
            if (op == ">=" and cv >= k + 1) or (op == ">" and cv >= k) or (op == "==" and cv >= k + 1):
                return True
        if t == buf + ".empty()" and truth is False and k == 0:
            return True
    return False


def view_source_ok(funcs, f, n, depth=0):
    """the string_view expression `n` of family function f is an input slice (or empty): `_input.substr(…)` / readName(), a default-constructed view,
    the value of an optional returned by a family function all of whose returns are such slices or nullopt, an unmodified local initialised with one, or
    a parameter of a private f for which every family call site passes one"""
    by = {}
    for g in funcs:
        by.setdefault(g.name, []).append(g)
    n = strip_views(n)
    if n is None or depth > 4:
        return False
    k = n.get("k")
    if k == "ctor" and last(n.get("cls", "")) in ("basic_string_view", "optional"):
        args = [a for a in n.get("args", []) if not a.get("def")]
        return not args or (len(args) == 1 and view_source_ok(funcs, f, args[0], depth + 1))
    if k == "zero" or (k == "ilist" and not n.get("vals")):
        return True
    if k == "mcall" and last(n.get("callee", "")) in ("substr", "readName") and (is_input(n.get("obj")) or strip_casts(n.get("obj") or {"k": "this"}).get("k") == "this"):
        return True
    if (k == "opcall" and n.get("op") == "*" and len(n["args"]) == 1) or (k == "mcall" and last(n.get("callee", "")) in ("value", "operator*")):
        return view_source_ok(funcs, f, n["args"][0] if k == "opcall" else n.get("obj"), depth + 1)
    if k == "mcall" and n.get("callee") in by:
        return all(("nullopt" in show(e.node) or view_source_ok(funcs, g, e.node.get("v"), depth + 1)) for g in by[n["callee"]] for e in common.returns(g)) and any(common.returns(g) for g in by[n["callee"]])
    if k == "var" and n.get("parm") is None:
        defs = [v.get("init") for d in f.stmts() if d.node.get("k") == "decl" for v in d.node["vars"] if v.get("d") == n.get("d")]
        return bool(defs) and not writes_of(f, n.get("d")) and all(isinstance(dd, dict) and view_source_ok(funcs, f, dd, depth + 1) for dd in defs)
    if k == "var" and n.get("parm") is not None and f.access == "private" and not writes_of(f, n.get("d")):
        sites = [(g, e) for g in funcs for e in g.stmts() if e.node.get("k") == "mcall" and e.node.get("callee") == f.name and len(e.node["args"]) == len(f.params)]
        return bool(sites) and all(view_source_ok(funcs, g, e.node["args"][n["parm"]], depth + 1) for g, e in sites)
    return False


def r1(ctx, r):
    fb = ctx.fb()
    prog, funcs, snaps, loops, unit = cursor_program(ctx)
    nreq = len(prog.checked) + len(prog.violations)
    # floors: 41 requirements / 34 accessor call sites on the pinned tree.  Folding duplicated scan loops into a helper or a library call (find,
    # substr compare) legitimately removes sites, so the floors only guard against the tokenizer no longer going through the accessors at all.
    if nreq < 24:
        raise AnalysisBroken("only %d cursor reads/advances recognised in xml::Parser (floor 24)" % nreq)
    r.instance(nreq)
    for (f, e, what) in prog.checked:
        r.ok("%s: %s inside the input" % (last(f.name), what))
    for (f, e, need, have, what) in prog.violations:
        r.fail(f, e, "outside input: %s" % what.split(" (")[0], "%s performs `%s`, which needs %s byte(s) between the cursor and the end of the input, but only %s known to remain on some path%s: "
               "the parser reads or moves past the end of the input (undefined behaviour on a string_view, slices and offsets outside the input)"
               % (last(f.name), what, show_form(need) if not is_top(need) else "a bound the analysis cannot establish", show_form(have), prog.describe_site(f)))
    nsites = len([1 for (f, e, what) in prog.checked + [(v[0], v[1], v[4]) for v in prog.violations] if "[needs" in what])
    if nsites < 20:
        raise AnalysisBroken("only %d peek/get/advance call-site obligations (floor 20)" % nsites)
    # limit arguments: a helper that advances the cursor up to a parameter (`while (_cur < target) advance();`) is analysed under the assumption
    # target <= size; every call site must have established that for the argument it passes (find() hit + match length, compare/substr equality,
    # an explicit `< size` test)
    lim_names = {g.name for g in funcs if prog.limits.get(g)}
    for f in fb.in_file(XF):
        if f.ok and f not in funcs and any(e.node.get("k") in ("call", "mcall") and e.node.get("callee") in lim_names for e in f.stmts()):
            raise AnalysisBroken("%s calls %s from outside the analysed Parser methods: the limit-parameter assumption cannot be checked at that call site" % (short(f.name), sorted(last(x) for x in lim_names)))
    for f in funcs:
        for e in f.stmts():
            g = prog.callee(e.node) if e.node.get("k") == "mcall" else None
            if g is None or not prog.limits.get(g):
                continue
            st = prog.bounds[f].flow.before(e)
            for pn, k in sorted(prog.limits[g].items()):
                a = e.node["args"][k]
                r.instance()
                r.expect(st is None or valid_in(lin(a), st), f, e, "limit argument: %s(%s)" % (last(g.name), show(a)[:30]), "%s calls %s(%s), which advances the cursor up to that position, on a path where `%s <= _input.size()` was not "
                         "established (no find() hit, compare/substr equality or size test covers it): the cursor can pass the end of the input" % (last(f.name), last(g.name), show(a), show(a)),
                         okdesc="%s: %s(%s) with the position validated" % (last(f.name), last(g.name), show(a)[:30]))
    # local index windows over _input and entity slices
    nloc = 0
    for f in funcs:
        for (buf, var) in sorted(buffers_in(f)):
            if var in snaps[f] and buf == "_input":
                # a snapshot used as base (`pos + i`): handled by the cursor program through the alias
                continue
            w = local_window(f, buf, var, snaps)
            nloc += len(w.checked) + len(w.violations)
            r.instance(len(w.checked) + len(w.violations))
            for (e, what) in w.checked:
                r.ok("%s: %s inside %s (index %s)" % (last(f.name), what, buf, var))
            for (e, need, have, what) in w.violations:
                r.fail(f, e, "outside buffer: %s" % what, "%s reads `%s` with no dominating `%s < %s.size()` test on some path" % (last(f.name), what, var, buf))
        for (e, buf, k) in const_index_reads(f):
            nloc += 1
            r.instance()
            r.expect(const_index_ok(f, e, buf, k), f, e, "outside buffer: %s[%d]" % (buf, k), "%s reads `%s[%d]` without a dominating size test" % (last(f.name), buf, k),
                     okdesc="%s: %s[%d] behind a size test" % (last(f.name), buf, k))
    # floor: 8 sites on the pinned tree; replacing a hand-written scan by a library call (find / substr compare / from_chars) legitimately
    # removes reads, so the floor only guards against the rule no longer seeing subscripts at all
    if nloc < 4:
        raise AnalysisBroken("only %d local-index reads recognised (floor 4)" % nloc)
    # slices start at cursor snapshots
    nsl = 0
    ru = xp(ctx, "readUntil")
    ru_out = [p["n"] for p in ru.params if "&" in p["t"]]
    ru_ok = False
    if ru_out:
        ws = [e for e in ru.stmts() if assign_parts(e.node) and strip_casts(assign_parts(e.node)[0]).get("n") == ru_out[0]]
        ru_ok = len(ws) == 1 and is_cur(assign_parts(ws[0].node)[1])
    for f in funcs:
        outargs = set()
        for e in f.stmts():
            if e.node.get("k") == "mcall" and e.node.get("callee") == ru.name and ru_ok and len(e.node["args"]) >= 2:
                outargs.add(strip_casts(e.node["args"][1]).get("n"))
        for e in f.stmts():
            n = e.node
            if n.get("k") == "mcall" and is_input(n.get("obj")) and last(n.get("callee", "")) == "substr" and n.get("args"):
                a = strip_casts(n["args"][0])
                nsl += 1
                r.instance()
                ok = is_cur(a) or (a.get("k") == "var" and (a["n"] in snaps[f] or a["n"] in outargs))
                r.expect(ok, f, e, "slice start: %s" % show(a), "%s builds a slice of the input starting at `%s`, which is neither the cursor nor an unmodified snapshot of it (a start beyond the input throws / points outside)"
                         % (last(f.name), show(a)), okdesc="%s: substr(%s, …) starts at a cursor snapshot" % (last(f.name), show(a)))
    if nsl < 4:      # 7 on the pinned tree; merging readers legitimately removes sites
        raise AnalysisBroken("only %d _input.substr sites (floor 4)" % nsl)
    # token views only from slices
    srcs_ok = ("substr", "readName")
    for f in funcs:
        for e in f.stmts():
            ap = assign_parts(e.node)
            if not ap:
                continue
            lt = show(strip_casts(ap[0]))
            if field_of(strip_casts(ap[0])) not in ("iora::parsers::xml::Token::text", "iora::parsers::xml::Token::name"):      # any Token object: the member _token or a local being filled
                continue
            rhs = strip_casts(strip_wrappers(ap[1]))
            r.instance()
            ok = False
            if rhs.get("k") == "mcall" and last(rhs.get("callee", "")) in srcs_ok:
                ok = True
            elif rhs.get("k") == "var" and rhs.get("parm") is None:
                defs = [v.get("init") for d in f.stmts() if d.node.get("k") == "decl" for v in d.node["vars"] if v["n"] == rhs["n"]]
                ok = bool(defs) and all(dd is not None and strip_casts(strip_wrappers(dd)).get("k") == "mcall" and last(strip_casts(strip_wrappers(dd)).get("callee", "")) in srcs_ok for dd in defs)
            if not ok:
                ok = view_source_ok(funcs, f, ap[1])
            r.expect(ok, f, e, "token view source: %s" % lt, "%s stores `%s` into %s, which is not a slice of the input produced by substr()/readName()" % (last(f.name), show(rhs)[:40], lt),
                     okdesc="%s: %s is an input slice" % (last(f.name), lt))
    # constructor starts at 0; offsets are the cursor
    ctor = [f for f in fb.methods_of(XP) if f.kind == "ctor" and f.ok]
    r.instance()
    okc = any(assign_parts(e.node) and is_cur(assign_parts(e.node)[0]) and const_value(strip_casts(assign_parts(e.node)[1])) == 0 for c in ctor for e in c.stmts())
    dflt = common.field_default(fb, "xml::Parser", "_cur")
    r.expect(okc or dflt == 0, ctor[0] if ctor else XP, None, "cursor start", "the Parser constructor does not start _cur at 0", okdesc="Parser(): _cur = 0")
    by_name = {}
    for f in funcs:
        by_name.setdefault(f.name, []).append(f)
    for fn, lhs in (("fail", "_error.offset"), ("emitEof", "_token.offset")):
        g = xp(ctx, fn)
        ws = assignments_to(g, lhs, by_name, skip=token_producers(funcs))
        r.instance()
        r.expect(len(ws) == 1 and is_cur(ws[0][1]), g, ws[0][0] if ws else None, "offset source: %s" % lhs, "%s does not report the cursor as offset" % fn, okdesc="%s: %s = _cur" % (fn, lhs))
    r.note("unit-advance accessors: %s; counted advance loops: %d; summaries: %s" % (", ".join(sorted(last(u) for u in unit)), sum(len(v) for v in loops.values()),
           "; ".join("%s pre>=%s" % (last(f.name), show_form(prog.pre[f])) for f in funcs if last(f.name) in ("peek", "get", "advance", "readEndTag", "readStartOrEmptyTag", "readAttributes"))))


def token_producers(funcs):
    """names of the family functions that (transitively) call produced(): readers and dispatchers, as opposed to helpers that merely fill fields"""
    names = {g.name for g in funcs}
    out = {XP + "::produced"}
    changed = True
    while changed:
        changed = False
        for g in funcs:
            if g.name not in out and any(e.node.get("k") == "mcall" and e.node.get("callee") in out for e in g.stmts()):
                out.add(g.name)
                changed = True
    return out


def assignments_to(f, lhs, by_name, depth=0, skip=()):
    """[(element of f, value expression in f's terms)] for every assignment to the member path `lhs` (as shown, e.g. "_token.offset", or a predicate on
    that text) that f performs itself or through a family helper — not one of `skip` (token producers: what they store is their own token, not f's) —
    that stores one of its parameters there: the value is then the argument at f's call site (a value without locals is taken as it is, anything else
    is None)"""
    out = []
    for e in f.stmts():
        ap = assign_parts(e.node)
        if ap and (lhs(show(strip_casts(ap[0]))) if callable(lhs) else show(strip_casts(ap[0])) == lhs):
            out.append((e, ap[1]))
        elif e.node.get("k") == "mcall" and e.node.get("callee") in by_name and e.node["callee"] not in skip and depth < 2 and strip_casts(e.node.get("obj") or {"k": "this"}).get("k") == "this":
            for g in by_name[e.node["callee"]]:
                if g is f or len(g.params) != len(e.node["args"]):
                    continue
                for (_, v) in assignments_to(g, lhs, by_name, depth + 1, skip):
                    v = strip_casts(v) if v is not None else None
                    if v is not None and v.get("k") == "var" and v.get("parm") is not None and not local_writes(g, v["n"]):
                        out.append((e, e.node["args"][v["parm"]]))
                    else:
                        out.append((e, v if v is not None and not any(x.get("k") == "var" for x in walk(v)) else None))
    return out


def leq1(fm):
    return fm[0] >= 1


def unfold_locals(f, n, depth=0):
    """`n` with every unmodified local that has an initialiser replaced by that initialiser (up to 3 levels): what the expression says in terms
    of members and parameters.  `elementDepth` declared `= _depth + 1` unfolds to `_depth + 1`.  The caller has to make sure the members read by
    the initialiser are not written between the declaration and the use (members_stable)."""
    from ..facts import _subst_vars
    if n is None or depth > 3:
        return n
    table = {}
    for x in walk(n):
        if x.get("k") == "var" and x.get("parm") is None and x.get("d") is not None and x["d"] not in table:
            _, v = decl_of(f, x["d"])
            if v is not None and isinstance(v.get("init"), dict) and not writes_of(f, x["d"]) and v["init"].get("k") not in ("lambda", "ctor", "ilist"):
                table[x["d"]] = v["init"]
    if not table:
        return n
    return unfold_locals(f, _subst_vars(n, table), depth + 1)


def depth_writes(f):
    return [e for e in f.stmts() if (e.node.get("k") == "un" and field_of(strip_casts(e.node["v"])) == DEPTH and ("++" in e.node["op"] or "--" in e.node["op"])) or
            (e.node.get("k") == "bin" and is_assign(e.node) and field_of(strip_casts(e.node["lhs"])) == DEPTH)]


def depth_delta(f, e):
    """+1 / -1 if the element raises / lowers _depth by one: `++_depth`, `_depth += 1`, or `_depth = X` where X (unmodified locals unfolded) is
    `_depth + 1` and _depth is not written between the declaration of the locals X reads and this assignment; None for any other write"""
    n = e.node
    if n.get("k") == "un":
        return 1 if "++" in n["op"] else -1
    if n.get("op") in ("+=", "-=") and const_value(strip_casts(n["rhs"])) == 1:
        return 1 if n["op"] == "+=" else -1
    if n.get("op") != "=":
        return None
    for x in walk(n["rhs"]):
        if x.get("k") == "var" and x.get("parm") is None:
            de, v = decl_of(f, x.get("d"))
            if de is None or search(f, de, lambda y: y in depth_writes(f) and y is not e, stop=lambda y: y is e, eh=False) is not None:
                return None
    fm = lin(unfold_locals(f, n["rhs"]))
    if fm is not None and fm[1] == ("_depth",) and fm[0] in (1, -1):
        return fm[0]
    return None


STACK = XP + "::_elementStack"
DEPTH = XP + "::_depth"


def stack_ops(f, kinds):
    return [e for e in common.member_calls_on(f, STACK, kinds)]


def r2(ctx, r):
    fb = ctx.fb()
    funcs = methods(ctx) + [f for f in fb.methods_of(XP) if f.kind == "ctor" and f.ok]
    end, start, eof, nxt, fail = xp(ctx, "readEndTag"), xp(ctx, "readStartOrEmptyTag"), xp(ctx, "emitEof"), xp(ctx, "next"), xp(ctx, "fail")
    xp(ctx, "produced")      # the balance clauses are phrased over the token production point produced(): without that function (inlined) they refuse
    # who may change the stack
    allowed = {("push_back", start.name), ("emplace_back", start.name), ("pop_back", end.name), ("clear", "ctor")}
    n = 0
    for f in funcs:
        for e in stack_ops(f, ("push_back", "emplace_back", "pop_back", "clear", "erase", "resize", "insert", "assign", "swap")):
            n += 1
            r.instance()
            key = (last(e.node["callee"]), "ctor" if f.kind == "ctor" else f.name)
            r.expect(key in allowed, f, e, "stack modified: %s" % key[0], "%s calls _elementStack.%s — the open-element stack may only be pushed by the start-tag reader and popped by the end-tag reader"
                     % (short(f.name), key[0]), okdesc="%s: %s" % (last(f.name), key[0]))
    if n < 3:
        raise AnalysisBroken("only %d element-stack modifications found" % n)
    # end tag: pop behind both tests, exactly once, before produced()
    pops = stack_ops(end, ("pop_back",))
    prod = [e for e in end.stmts() if e.node.get("k") == "mcall" and last(e.node.get("callee", "")) == "produced"]
    emp = [b for b in end.blocks.values() if b.cond is not None and show(strip_casts(b.cond)) == "_elementStack.empty()"]
    nm = [v["n"] for e in end.stmts() if e.node.get("k") == "decl" for v in e.node["vars"] if v.get("init") is not None and "readName()" in show(v["init"])]
    r.instance()
    if not r.expect(len(pops) == 1 and len(prod) == 1 and len(emp) == 1, end, None, "end tag shape", "readEndTag: expected one pop_back, one produced() and one empty() test; found %d/%d/%d"
                    % (len(pops), len(prod), len(emp)), okdesc="readEndTag: one pop, one produced, empty() test present"):
        return
    if len(nm) != 1:
        raise AnalysisBroken("readEndTag: the name read by readName() is not held in exactly one local (%s)" % nm)
    pop, prd = pops[0], prod[0]
    r.instance()
    r.expect(dominated_by_edge(end, pop, emp[0], 1, eh=False), end, pop, "pop on empty stack", "readEndTag pops (and accepts the end tag) on a path where `_elementStack.empty()` was not tested false: an end tag without a start tag is accepted / pop_back on an empty vector",
             okdesc="pop behind !empty()")
    # the name just read must be found EQUAL (whole strings) to the innermost open name before the pop
    verdicts = []
    for (c, truth) in dominating_facts(end, pop):
        cs = strip_casts(c)
        if not any(x.get("k") == "var" and x["n"] == nm[0] for x in walk(cs)):
            continue
        cp = common.cmp_parts(cs)
        if cp:
            a, b = strip_views(cp[1]), strip_views(cp[2])
            sides = [a, b]
            named = [x for x in sides if x.get("k") == "var" and x["n"] == nm[0]]
            other = [x for x in sides if x not in named]
            eqedge = (cp[0] == "==" and truth) or (cp[0] == "!=" and not truth)
            if named and other and other[0].get("k") in ("mcall", "opcall", "idx", "var", "member") and not const_value(other[0]) == 0 and eqedge:
                verdicts.append(("equal", show(cs)))
                continue
            # X.compare(pos, count, name) ==/!= 0
            cm = [x for x in sides if x.get("k") == "mcall" and last(x.get("callee", "")) == "compare"]
            zero = [x for x in sides if const_value(x) == 0]
            if cm and zero and eqedge:
                args = [x for x in cm[0].get("args", []) if not x.get("def")]
                if len(args) == 1:
                    verdicts.append(("equal", show(cs)))            # whole-string compare
                elif len(args) >= 3 and any(y.get("k") == "var" and y["n"] == nm[0] for y in walk(args[1])):
                    verdicts.append(("prefix", show(cs)))           # count taken from the name just read: only a prefix of the open name is compared
                else:
                    verdicts.append(("unknown", show(cs)))
                continue
            if eqedge or cp[0] in ("==", "!="):
                verdicts.append(("unknown", show(cs)))
    r.instance()
    if any(v == "equal" for v, _ in verdicts):
        r.ok("pop behind `%s`" % [t for v, t in verdicts if v == "equal"][0][:60])
    elif any(v == "prefix" for v, _ in verdicts):
        t = [t for v, t in verdicts if v == "prefix"][0]
        r.fail(end, pop, "end tag name compared as a prefix", "readEndTag accepts the end tag after `%s`: the number of characters compared is the length of the name just read, so only a PREFIX of the innermost open "
               "element's name is compared — `<ab>…</a>` is accepted as balanced" % t[:90])
    elif verdicts:
        raise AnalysisBroken("readEndTag: the comparison between the end-tag name and the open element has a shape the rule cannot classify: %s" % verdicts[0][1][:100])
    else:
        r.fail(end, pop, "pop without name match", "readEndTag pops on a path where the name just read was not compared with the innermost open element: mis-nested documents such as <a><b></a></b> are accepted")
    r.instance()
    r.expect(elem_dominates(end, pop, prd, eh=False) and search(end, pop, lambda x: x is pop, eh=False) is None, end, prd, "end tag produced without pop", "readEndTag reports an EndElement on a path that did not pop exactly one open element",
             okdesc="EndElement produced only after exactly one pop")
    tokname = [e for e in end.stmts() if assign_parts(e.node) and show(strip_casts(assign_parts(e.node)[0])) == "_token.name"]
    r.instance()
    r.expect(len(tokname) == 1 and nm and show(strip_casts(assign_parts(tokname[0].node)[1])) == nm[0], end, tokname[0] if tokname else None, "end tag name", "the EndElement token does not carry the name that was compared", okdesc="EndElement name is the compared name")
    # start tag: push exactly on the non-empty path
    pushes = stack_ops(start, ("push_back", "emplace_back"))
    prods = [e for e in start.stmts() if e.node.get("k") == "mcall" and last(e.node.get("callee", "")) == "produced"]
    flag = branched_bool(start)      # the self-closing flag: the one bool local of the function that is branched on (found by dataflow, not by its name)
    eb = [b for b in start.blocks.values() if b._raw_cond() is not None and is_var(b._raw_cond(), flag["d"])]
    flag_sets = [e for e in start.stmts() if (assign_parts(e.node) and is_var(assign_parts(e.node)[0], flag["d"]))]
    if flag_sets and len(eb) > 1:
        raise AnalysisBroken("readStartOrEmptyTag: the self-closing flag `%s` is assigned and tested at %d branches — the tests cannot be assumed to agree" % (flag["n"], len(eb)))
    # the flag is tested at one branch, or never written after its initialisation: all its tests agree, so the function is looked at once under
    # `flag true` (every false edge of a flag test removed) and once under `flag false`
    when_set = lambda b, si: not (b in eb and si == 1)
    when_clear = lambda b, si: not (b in eb and si == 0)
    r.instance()
    if r.expect(len(pushes) == 1 and len(prods) >= 1 and len(eb) >= 1, start, None, "start tag shape", "readStartOrEmptyTag: expected one push, produced() and a test of `%s`; found %d/%d/%d" % (flag["n"], len(pushes), len(prods), len(eb)),
                okdesc="readStartOrEmptyTag: one push, produced() behind the self-closing test"):
        push = pushes[0]
        ebb = ([b for b in eb if dominated_by_edge(start, push, b, 1, eh=False)] or eb)[0]
        r.instance()
        r.expect(search(start, ("entry",), lambda x: x is push, edge_ok=when_set, eh=False) is None, start, push, "push for empty element", "a self-closing element is pushed on the open-element stack (its end tag never comes: the document is rejected, or a later mismatch accepted)",
                 okdesc="push only when !%s" % flag["n"])
        pushed_name = show(push.node["args"][0]) if push.node.get("args") else ""
        snm = [v["n"] for e in start.stmts() if e.node.get("k") == "decl" for v in e.node["vars"] if v.get("init") is not None and "readName()" in show(v["init"])]
        r.instance()
        stored_elsewhere = bool(snm) and any(x.kind == "stmt" and x.node.get("k") in ("mcall", "opcall") and (last(x.node.get("callee", "")) in ("append", "insert", "push_back", "emplace_back", "operator+=", "assign") or x.node.get("op") == "+=")
                                              and snm[0] in show(x.node) and x is not push for x in push.block.elems)
        r.expect(snm and (snm[0] in pushed_name or stored_elsewhere), start, push, "pushed name", "neither the value pushed on the open-element stack nor anything stored with it is the tag name just read", okdesc="the tag name just read is recorded with the push")
        for p in prods:
            r.instance()
            # open element (flag false): produced() only behind exactly one push; self-closing (flag true): the push is unreachable (clause above)
            reach_clear = search(start, ("entry",), lambda x: x is p, edge_ok=when_clear, eh=False) is not None
            ok = (not reach_clear or search(start, ("entry",), lambda x: x is p, stop=lambda x: x is push, edge_ok=when_clear, eh=False) is None) and search(start, push, lambda x: x is push, eh=False) is None and \
                (reach_clear or search(start, ("entry",), lambda x: x is p, edge_ok=when_set, eh=False) is not None)
            r.expect(ok, start, p, "start tag produced without push", "readStartOrEmptyTag reports a StartElement on a path that did not push it (or an EmptyElement after pushing)", okdesc="produced() consistent with push")
        # the empty flag is true only when '/' was seen
        sets = flag_sets
        decl = [flag]
        r.instance()
        slash_blocks = [b for b in start.blocks.values() if b.cond is not None and common.cmp_parts(b.cond) and common.cmp_parts(b.cond)[0] == "==" and const_value(common.cmp_parts(b.cond)[2]) == ord('/') and "peek()" in show(common.cmp_parts(b.cond)[1])]
        ok = False
        if decl and const_value(strip_casts(decl[0].get("init") or {})) == 0 and sets and slash_blocks:
            ok = all(const_value(strip_casts(assign_parts(e.node)[1])) == 1 and dominated_by_edge(start, e, slash_blocks[0], 0, eh=False) for e in sets)
        elif decl and decl[0].get("init") is not None and not sets:
            i = strip_casts(decl[0]["init"])
            cpi = common.cmp_parts(i)
            ok = bool(cpi) and cpi[0] == "==" and const_value(cpi[2]) == ord('/') and "peek()" in show(cpi[1])
        r.expect(ok, start, None, "empty flag", "`%s` is not exactly 'the character after the attributes is /'" % flag["n"], okdesc="%s ⇔ '/' seen" % flag["n"])
    # depth paired with the stack: on every path to produced() the net change of _depth is +1 exactly when the element was pushed
    # (start tag) and -1 exactly with the pop (end tag); nothing else writes _depth
    dw = [(f, e) for f in funcs for e in depth_writes(f)]
    for f, e in dw:
        if f in (start, end) and depth_delta(f, e) is None:
            raise AnalysisBroken("%s writes _depth with `%s`, which is not a change by one the rule can follow" % (last(f.name), show(e.node)[:60]))
    r.instance()
    bad = [(f, e) for f, e in dw if f not in (start, end) and f.kind != "ctor"]
    r.expect(not bad, bad[0][0] if bad else start, bad[0][1] if bad else None, "depth written elsewhere", "_depth is modified outside the start/end tag readers", okdesc="_depth written only by the tag readers (%d sites)" % len(dw))
    from ..predabs import Vocab, PredAbs, A, Not, And, Or
    for (f, stack_elems, want_push, label) in ((start, pushes, True, "start tag"), (end, pops, False, "end tag")):
        vocab = Vocab(["chg", "twice", "stk"])

        def effects(e, f=f, stack_elems=stack_elems):
            if e.kind != "stmt":
                return None
            n = e.node
            if e in depth_writes(f):
                up = depth_delta(f, e) == 1
                # net change relative to entry: start tag counts +1 as 'chg', a following -1 undoes it; end tag symmetric
                if (up and f is start) or ((not up) and f is end):
                    return [("assign", "twice", Or(A("twice"), A("chg"))), ("set", "chg", True)]
                return [("assign", "twice", Or(A("twice"), Not(A("chg")))), ("set", "chg", False)]
            if e in stack_elems:
                return [("set", "stk", True)]
            return None
        pa = PredAbs(f, vocab, lambda n: None, effects, init=And(Not(A("chg")), Not(A("twice")), Not(A("stk"))), eh=False)
        ps_ = [e for e in f.stmts() if e.node.get("k") == "mcall" and last(e.node.get("callee", "")) == "produced"]
        for e in ps_:
            r.instance()
            r.expect(pa.entails(e, And(Not(A("twice")), Or(And(A("chg"), A("stk")), And(Not(A("chg")), Not(A("stk")))))), f, e, "depth/stack pairing: %s" % label,
                     "a %s token is produced on a path where the net change of _depth does not match the push/pop of the open-element stack (%s)" % (label, ", ".join(pa.describe(e))), okdesc="%s: depth change ⇔ stack change" % label)
    # Eof only with an empty stack
    seteof = [e for e in eof.stmts() if assign_parts(e.node) and "_emittedEof" in show(assign_parts(e.node)[0])]
    embs = [b for b in eof.blocks.values() if b.cond is not None and "_elementStack.empty()" in show(b.cond)]
    r.instance()
    ok = False
    if len(seteof) == 1 and len(embs) == 1:
        c = strip_casts(embs[0].cond)
        neg = c.get("k") == "un" and c.get("op") == "!"
        ok = dominated_by_edge(eof, seteof[0], embs[0], 1 if neg else 0, eh=False)
    r.expect(ok, eof, seteof[0] if seteof else None, "Eof with open elements", "emitEof marks the document complete on a path where the open-element stack was not tested empty: a truncated document is accepted",
             okdesc="Eof only when the stack is empty")
    others = [(f, e) for f in funcs for e in f.stmts() if assign_parts(e.node) and "_emittedEof" in show(assign_parts(e.node)[0]) and f is not eof and f.kind != "ctor"]
    r.instance()
    r.expect(not others, others[0][0] if others else eof, others[0][1] if others else None, "Eof set elsewhere", "_emittedEof is set outside emitEof()", okdesc="_emittedEof written only by emitEof")
    # errors are sticky: fail() sets _hasError, next() tests it first, nothing clears it
    sets = [(f, e) for f in funcs for e in f.stmts() if assign_parts(e.node) and show(strip_casts(assign_parts(e.node)[0])) == "_hasError"]
    r.instance()
    r.expect(len(sets) == 1 and sets[0][0] is fail and const_value(strip_casts(assign_parts(sets[0][1].node)[1])) == 1, fail, None, "error flag", "_hasError is not set exactly by fail() to true", okdesc="_hasError set only by fail()")
    first = [b for b in nxt.blocks.values() if b.cond is not None and show(strip_casts(b.cond)) == "_hasError"]
    reads = [e for e in nxt.stmts() if e.node.get("k") == "mcall" and last(e.node.get("callee", "")).startswith(("read", "skip", "emitEof"))]
    r.instance()
    r.expect(len(first) == 1 and reads and all(dominated_by_edge(nxt, e, first[0], 1, eh=False) for e in reads), nxt, None, "error not sticky", "next() continues tokenizing after an error was recorded", okdesc="next(): nothing after an error")
    # fail() returns false; produced() returns true
    for g, want in ((fail, 0), (xp(ctx, "produced"), 1)):
        rets = common.returns(g)
        r.instance()
        r.expect(rets and all(const_value(strip_casts(e.node.get("v") or {})) == want for e in rets), g, None, "%s result" % last(g.name), "%s() does not always return %s" % (last(g.name), "true" if want else "false"),
                 okdesc="%s() returns %s" % (last(g.name), "true" if want else "false"))


def success_return(e):
    """the return element reports success: `return true`, or (optional-returning reader) a std::optional constructed from a value — not from nullopt / nothing"""
    v = strip_casts(e.node.get("v") or {})
    if const_value(v) is not None:
        return const_value(v) == 1
    if v.get("k") == "ctor" and last(v.get("cls", "")) == "optional":
        args = [a for a in v.get("args", []) if not a.get("def")]
        return bool(args) and "nullopt" not in show(v)
    return False


def r3(ctx, r):
    fb = ctx.fb()
    start, name, text, qv, attrs, nxt, prod = (xp(ctx, n) for n in ("readStartOrEmptyTag", "readName", "readText", "readQuotedValue", "readAttributes", "next", "produced"))
    # depth
    # every raise of _depth (`++_depth`, or `_depth = d` with d an unmodified local holding `_depth + 1`) lies behind the false edge of the limit test
    # `_depth + 1 > maxDepth` / `_depth >= maxDepth`; the test may be spelled over such a local too (unfolded), provided _depth is not written between
    # the local's declaration and the test
    inc = [e for e in depth_writes(start) if depth_delta(start, e) == 1]
    if any(depth_delta(start, e) is None for e in depth_writes(start)):
        raise AnalysisBroken("readStartOrEmptyTag writes _depth in a way the rule cannot follow")
    db = []
    for b in start.blocks.values():
        if b.cond is None or not common.cmp_parts(b.cond) or "maxDepth" not in show(b.cond):
            continue
        stable = True
        for x in walk(b.cond):
            if x.get("k") == "var" and x.get("parm") is None:
                de, _ = decl_of(start, x.get("d"))
                if de is not None and search(start, de, lambda y: y in depth_writes(start), stop=lambda y, b=b: y.block is b, eh=False) is not None:
                    stable = False
        u = unfold_locals(start, b.cond)
        if stable and "_depth" in show(u):
            db.append((b, u))
    r.instance()
    ok = False
    if inc and len(db) == 1:
        op, l, rr = common.cmp_parts(db[0][1])
        fl = lin(l)
        # `_depth + 1 > max` or `_depth >= max`
        strict = (op == ">" and fl is not None and fl[0] >= 1) or (op == ">=" and fl is not None and fl[0] >= 0)
        ok = strict and "maxDepth" in show(rr) and all(dominated_by_edge(start, e, db[0][0], 1, eh=False) for e in inc)
    db = [b for b, _ in db]
    r.expect(ok, start, inc[0] if inc else None, "depth limit", "_depth is raised on a path that does not pass the false edge of `_depth + 1 > maxDepth`", okdesc="maxDepth tested before _depth is raised")
    prods_ = [e for e in start.stmts() if e.node.get("k") == "mcall" and last(e.node.get("callee", "")) == "produced"]
    for e in prods_:
        r.instance()
        r.expect(len(db) == 1 and dominated_by_edge(start, e, db[0], 1, eh=False), start, e, "element reported beyond the depth limit", "readStartOrEmptyTag reports an element (depth _depth + 1) on a path that did not pass the "
                 "maxDepth test: an element one level beyond the limit is accepted (e.g. a self-closing leaf)", okdesc="every start/empty element token behind the maxDepth test")
    # name length: every non-empty return of readName is behind the test
    nb = [b for b in name.blocks.values() if b.cond is not None and common.cmp_parts(b.cond) and "maxNameLength" in show(b.cond)]
    rets = [e for e in common.returns(name) if "substr" in show(e.node)]
    r.instance()
    r.expect(len(nb) == 1 and rets and all(dominated_by_edge(name, e, nb[0], 1, eh=False) for e in rets) and (common.cmp_oriented(nb[0].cond, lambda x: "maxNameLength" in show(x)) or ("?",))[0] in (">", ">="), name, rets[0] if rets else None, "name length limit",
             "readName returns a name without the maxNameLength test", okdesc="maxNameLength tested before a name is returned")
    # text span: advance in the loop behind the test
    tb = [b for b in text.blocks.values() if b.cond is not None and common.cmp_parts(b.cond) and "maxTextSpan" in show(b.cond)]
    adv = [e for e in text.stmts() if e.node.get("k") == "mcall" and last(e.node.get("callee", "")) in ("advance", "get")]
    r.instance()
    r.expect(len(tb) == 1 and adv and all(dominated_by_edge(text, e, tb[0], 1, eh=False) and search(text, e, lambda x, e=e: x is e, stop=lambda x: x.block is tb[0], eh=False) is None for e in adv), text, adv[0] if adv else None, "text span limit",
             "readText advances without passing the maxTextSpan test in each iteration", okdesc="maxTextSpan tested per character")
    qb = [b for b in qv.blocks.values() if b.cond is not None and common.cmp_parts(b.cond) and "maxTextSpan" in show(b.cond)]
    qrt = [e for e in common.returns(qv) if success_return(e)]
    if not qrt:
        raise AnalysisBroken("readQuotedValue: no success return recognised (neither `return true` nor an engaged std::optional)")
    r.instance()
    r.expect(len(qb) == 1 and qrt and all(dominated_by_edge(qv, e, qb[0], 1, eh=False) for e in qrt), qv, None, "attribute value limit", "readQuotedValue succeeds without the maxTextSpan test", okdesc="attribute value length tested")
    # attributes per element
    pushes = [e for e in attrs.stmts() if e.node.get("k") == "mcall" and last(e.node.get("callee", "")) in ("push_back", "emplace_back") and is_var(e.node.get("obj"), attr_param(attrs).get("d"))]
    ab = [b for b in attrs.blocks.values() if b.cond is not None and common.cmp_parts(b.cond) and "maxAttrsPerElement" in show(b.cond)]
    r.instance()
    ok = len(pushes) == 1 and len(ab) == 1 and search(attrs, pushes[0], lambda x: x is pushes[0], stop=lambda x: x.block is ab[0], eh=False) is None
    if ok:
        rt = [e for e in common.returns(attrs) if const_value(strip_casts(e.node.get("v") or {})) == 1]
        ok = all(search(attrs, pushes[0], lambda x, e=e: x is e, stop=lambda x: x.block is ab[0], eh=False) is None for e in rt)
    r.expect(ok, attrs, pushes[0] if pushes else None, "attribute count limit", "readAttributes can add another attribute or succeed after a push without passing the maxAttrsPerElement test", okdesc="maxAttrsPerElement tested after every push")
    # token budget
    tb = [b for b in nxt.blocks.values() if b.cond is not None and "maxTotalTokens" in show(b.cond) and "_producedTokens" in show(b.cond)]
    # the tokenizing calls of next(): calls of family methods that (transitively) reach produced() — the readers themselves or a dispatcher in front of
    # them.  Behind the budget test in next(), everything they call is behind it too.  Floor: the 7 functions that call produced() directly must all
    # be reachable this way (a reader reached on another route would escape the budget).
    fam = {}
    for g in methods(ctx):
        fam.setdefault(g.name, []).append(g)
    direct = {g.name for gs in fam.values() for g in gs if g is not prod and any(e.node.get("k") == "mcall" and e.node.get("callee") == prod.name for e in g.stmts())}

    def producers(name, seen):
        """names of the functions calling produced() directly that are reachable from family function `name`"""
        if name in seen or name not in fam:
            return set()
        seen.add(name)
        out = {name} if name in direct else set()
        for g in fam[name]:
            for e in g.stmts():
                if e.node.get("k") == "mcall" and e.node.get("callee") in fam and e.node["callee"] != nxt.name:
                    out |= producers(e.node["callee"], seen)
        return out
    reads = [e for e in nxt.stmts() if e.node.get("k") == "mcall" and e.node.get("callee") in fam and e.node["callee"] != nxt.name and producers(e.node["callee"], set())]
    reached = set().union(*[producers(e.node["callee"], set()) for e in reads]) if reads else set()
    if direct - reached:
        raise AnalysisBroken("next(): %s produce tokens but are not reached from next()'s own calls — the token budget rule does not see their call sites" % sorted(last(x) for x in direct - reached))
    r.instance()
    ok = bool(tb) and len(reached) >= 7
    if ok:
        # the materialised `a && b` condition: the true edge returns fail, every reader is on the other side
        last_b = tb[-1]
        ok = all(search(nxt, ("entry",), lambda x, e=e: x is e, eh=False, edge_ok=lambda b, si: not (b is last_b and si == 0)) is not None and
                 not dominated_by_edge(nxt, e, last_b, 0, eh=False) for e in reads)
        ge = [x for b in tb for x in walk(b.cond) if common.cmp_parts(x) and "_producedTokens" in show(x)]
        ok = ok and ge and common.cmp_parts(ge[0])[0] in (">=", ">")
        tgt = nxt.blocks[last_b.succs[0]]
        ok = ok and any(e.kind == "stmt" and e.node.get("k") == "ret" for e in tgt.elems) and not any(e in reads for e in tgt.elems)
    r.expect(ok, nxt, None, "token limit", "next() reads another token without testing _producedTokens against maxTotalTokens first", okdesc="token budget tested before tokenizing")
    pi = [e for e in prod.stmts() if e.node.get("k") == "un" and "++" in e.node["op"] and "_producedTokens" in show(e.node["v"])]
    r.instance()
    r.expect(len(pi) == 1, prod, None, "token count", "produced() does not count the token", okdesc="produced(): ++_producedTokens")
    # every successful token goes through produced()
    for f in methods(ctx):
        if not last(f.name).startswith("read") or last(f.name) in ("readName", "readUntil", "readQuotedValue", "readAttributes"):
            continue
        for e in common.returns(f):
            v = strip_casts(e.node.get("v") or {})
            if const_value(v) == 1:
                r.instance()
                r.fail(f, e, "token not counted", "%s returns true without produced(): the token is not counted against maxTotalTokens" % last(f.name))
            else:
                r.instance()
                r.ok()


ENTITIES = {"lt": ord('<'), "gt": ord('>'), "amp": ord('&'), "apos": ord("'"), "quot": ord('"')}
IO_DENY = ("fopen", "open", "openat", "socket", "connect", "getaddrinfo", "popen", "system", "dlopen", "mmap", "std::filesystem::", "std::basic_ifstream", "std::basic_fstream", "std::basic_ofstream", "curl_")


def lookup_helper_table(g, j):
    """For a pure look-up helper `g` that compares its j-th parameter with string literals and returns a constant per literal:
    ({literal: constant returned}, {constants returned when no literal matched}).  AnalysisBroken if g does anything else."""
    pd = g.params[j].get("d")
    tab, matched = {}, set()
    for e in g.stmts():
        n = e.node
        if n.get("k") in ("call", "mcall", "new", "delete", "throw") or (n.get("k") in ("bin", "opcall", "un") and (is_assign(n) or "++" in n.get("op", "") or "--" in n.get("op", ""))) or \
                (n.get("k") == "ctor" and n.get("cls") not in ("std::basic_string_view",)):
            raise AnalysisBroken("%s: `%s` — not a pure literal look-up, the rule does not follow it" % (last(g.name), show(n)[:60]))
    for b in g.blocks.values():
        cp = common.cmp_parts(strip_casts(b.cond)) if b.cond is not None and len(b.succs) == 2 and b.edge_label(0) is True else None
        if not cp:
            continue
        sides = [(cp[1], cp[2]), (cp[2], cp[1])]
        hit = [(x, y) for x, y in sides if is_var(strip_views(x), pd) and len([z for z in walk(y) if z.get("k") == "str"]) == 1]
        if cp[0] != "==" or not hit:
            raise AnalysisBroken("%s: branch `%s` is not `<parameter> == \"literal\"`" % (last(g.name), show(b.cond)[:60]))
        lit = [z for z in walk(hit[0][1]) if z.get("k") == "str"][0].get("v")
        rets = [e for e in g.blocks[b.succs[0]].elems if e.kind == "stmt" and e.node.get("k") == "ret"]
        if len(rets) != 1 or const_value(rets[0].node.get("v") or {}) is None or lit in tab:
            raise AnalysisBroken("%s: the arm of \"%s\" does not return one constant" % (last(g.name), lit))
        tab[lit] = const_value(rets[0].node["v"])
        matched.add(rets[0])
    fallback = set()
    for e in common.returns(g):
        if e not in matched:
            cv = const_value(e.node.get("v") or {})
            if cv is None:
                raise AnalysisBroken("%s: a return that is no constant" % last(g.name))
            fallback.add(cv)
    return tab, fallback


def branch_on_result(f, call):
    """(block, successor when the call returned true, successor when false) of the branch that tests the result of the call element
    `call` — the call itself as condition, or an unmodified local initialised with it; None if there is none"""
    held = [v["d"] for x in f.stmts() if x.node.get("k") == "decl" for v in x.node["vars"] if v.get("init") is not None and strip_casts(v["init"]) is call.node and not writes_of(f, v["d"])]
    for b in f.blocks.values():
        if b.cond is None or len(b.succs) != 2:
            continue
        c, st, sf = common.branch(b)
        if c is not None and (c is call.node or (c.get("k") == "var" and c.get("d") in held)) and st is not None and sf is not None and st != sf:
            return b, st, sf
    return None


def r4(ctx, r):
    fb = ctx.fb()
    de = xp(ctx, "decodeEntities")
    acrf = xp(ctx, "appendCharRef")
    # the entity slice and the output are found by dataflow: the slice is what decodeEntities hands to appendCharRef, the output is its std::string & parameter
    acr = [e for e in de.stmts() if e.node.get("k") in ("call", "mcall") and e.node.get("callee") == acrf.name]
    outp = [p for p in de.params if "basic_string<" in p["t"] and "&" in p["t"] and "const" not in p["t"]]
    if len(acr) != 1 or len(outp) != 1 or not acr[0].node.get("args") or (strip_views(acr[0].node["args"][0]) or {}).get("k") != "var":
        raise AnalysisBroken("decodeEntities: expected one call appendCharRef(<entity slice>, out) and one std::string & parameter")
    ent = strip_views(acr[0].node["args"][0])
    ed, od = ent["d"], outp[0].get("d")

    def pushed_on_out(block):
        return [e.node["args"][0] for e in block.elems if e.kind == "stmt" and e.node.get("k") == "mcall" and last(e.node.get("callee", "")) == "push_back" and e.node.get("args") and is_var(e.node.get("obj"), od)]
    table = {}
    # (a) inline chain: `ent == "lit"` whose true edge pushes one constant
    for b in de.blocks.values():
        c = b.cond
        if c is None:
            continue
        cp = common.cmp_parts(c)
        if not cp or cp[0] != "==":
            continue
        for x, y in ((cp[1], cp[2]), (cp[2], cp[1])):
            lit = [z.get("v") for z in walk(y) if z.get("k") == "str"]
            if len(lit) == 1 and is_var(strip_views(x), ed):
                pushed = [const_value(strip_casts(a)) for a in pushed_on_out(de.blocks[b.succs[0]])]
                table[lit[0]] = pushed[0] if len(pushed) == 1 else None
    # (b) look-up helper: `r = g(ent)` with g a pure literal→constant table; `r != <no-match constant>` guards `out.push_back(r)`
    for e in de.stmts():
        n = e.node
        if n.get("k") not in ("call", "mcall") or e is acr[0] or not (n.get("callee") or "").startswith(XP + "::"):
            continue
        js = [j for j, a in enumerate(n.get("args", [])) if is_var(strip_views(a), ed)]
        if not js:
            continue
        gs = [g for g in fb.funcs(n["callee"], XF) if g.ok and len(g.params) == len(n["args"])]
        if len(gs) != 1:
            raise AnalysisBroken("decodeEntities passes the entity name to %s, which has %d definitions" % (last(n["callee"]), len(gs)))
        tab, fallback = lookup_helper_table(gs[0], js[0])
        held = [v for x in de.stmts() if x.node.get("k") == "decl" for v in x.node["vars"] if v.get("init") is not None and strip_casts(v["init"]) is n and not writes_of(de, v["d"])]
        if len(held) != 1 or len(fallback) != 1:
            raise AnalysisBroken("decodeEntities: the result of %s is not held in one unmodified local / the helper has %d no-match values" % (last(n["callee"]), len(fallback)))
        nomatch = list(fallback)[0]
        used = False
        for b in de.blocks.values():
            co = common.cmp_oriented(b.cond, lambda x: const_value(x) is not None) if b.cond is not None and len(b.succs) == 2 and b.edge_label(0) is True else None
            if co and co[0] in ("==", "!=") and is_var(co[1], held[0]["d"]) and const_value(co[2]) == nomatch:
                eb = de.blocks[b.succs[0 if co[0] == "!=" else 1]]
                if len(pushed_on_out(eb)) == 1 and is_var(pushed_on_out(eb)[0], held[0]["d"]):
                    used = True
        if not used:
            raise AnalysisBroken("decodeEntities: no branch `%s != %r` whose matching edge pushes the looked-up character" % (held[0]["n"], nomatch))
        for k, v in tab.items():
            table[k] = None if v == nomatch else v
    if not table:
        raise AnalysisBroken("decodeEntities: no comparison of the entity slice with a name literal recognised (neither an if-chain nor a look-up helper)")
    r.instance()
    r.expect(set(table) == set(ENTITIES), de, None, "entity names", "decodeEntities recognises the named entities %s; XML predefines exactly %s (anything else must be an error, never expanded)" % (sorted(table), sorted(ENTITIES)),
             okdesc="exactly the five predefined entity names")
    for k, v in sorted(table.items()):
        r.instance()
        r.expect(ENTITIES.get(k) == v, de, None, "entity &%s;" % k, "&%s; decodes to %r instead of %r" % (k, chr(v) if v else None, chr(ENTITIES[k]) if k in ENTITIES else None), okdesc="&%s; → %r" % (k, chr(v) if v else "?"))
    # '#' goes to appendCharRef, everything else returns false
    hb = []
    for b in de.blocks.values():
        co = common.cmp_oriented(b.cond, lambda x: const_value(x) == ord('#')) if b.cond is not None else None
        x = strip_casts(co[1]) if co and co[0] == "==" else None
        if x is not None and ((x.get("k") == "opcall" and x.get("op") == "[]" and is_var(strip_views(x["args"][0]), ed) and const_value(x["args"][1]) == 0) or
                              (x.get("k") == "mcall" and last(x.get("callee", "")) == "front" and is_var(strip_views(x.get("obj")), ed))):
            hb.append(b)
    if not hb:
        raise AnalysisBroken("decodeEntities: no test `<entity slice>[0] == '#'` recognised in front of appendCharRef")
    r.instance()
    ok = len(acr) == 1 and len(hb) == 1 and dominated_by_edge(de, acr[0], hb[0], 0, eh=False)
    r.expect(ok, de, acr[0] if acr else None, "character reference dispatch", "numeric references are not dispatched on a leading '#'", okdesc="&#…; → appendCharRef")
    r.instance()
    okf = False
    if len(hb) == 1:
        fb_ = de.blocks[hb[0].succs[1]]
        # the false edge (and the `!ent.empty()` false edge) must lead to `return false` without pushing
        w = search(de, ("block", fb_.id), lambda x: x.kind == "stmt" and x.node.get("k") == "mcall" and last(x.node.get("callee", "")) in ("push_back", "append"), stop=lambda x: x.kind == "stmt" and x.node.get("k") == "ret", eh=False)
        w2 = search(de, ("block", fb_.id), lambda x: x.kind == "stmt" and x.node.get("k") == "ret" and const_value(strip_casts(x.node.get("v") or {})) != 0, stop=lambda x: x.kind == "stmt" and x.node.get("k") == "ret" and const_value(strip_casts(x.node.get("v") or {})) == 0, eh=False)
        okf = w is None and w2 is None
    r.expect(okf, de, None, "unknown entity accepted", "an entity name outside the predefined five (and not a numeric reference) does not make decodeEntities return false", okdesc="unknown entity → error")
    # failing char ref → false: the branch on appendCharRef's result (the call itself or a local holding it) returns false on its failing edge
    r.instance()
    br = branch_on_result(de, acr[0])
    if br is None and not ("root" in acr[0].raw and de.root_elem(acr[0].node) is acr[0]):
        # the result is used, but not by a branch the rule recognises (returned, combined, stored in a modified local): refuse; a result that is simply
        # dropped (`appendCharRef(ent, out);` as a statement) is the violation
        raise AnalysisBroken("decodeEntities: the result of appendCharRef is neither branched on nor dropped — shape not followed")
    okc = br is not None and any(e.kind == "stmt" and e.node.get("k") == "ret" and const_value(strip_casts(e.node.get("v") or {})) == 0 for e in _reach_until_ret(de, br[2])) and \
        not any(e.kind == "stmt" and e.node.get("k") == "ret" and const_value(strip_casts(e.node.get("v") or {})) != 0 for e in _reach_until_ret(de, br[2]))
    r.expect(okc, de, None, "bad character reference accepted", "a failing appendCharRef does not fail decodeEntities", okdesc="invalid character reference → error")
    # no I/O anywhere in the header
    n = 0
    for f in fb.in_file(XF):
        if not f.ok:
            continue
        n += 1
        for e in f.stmts():
            nn = e.node
            c = nn.get("callee") or nn.get("cls") or ""
            if nn.get("k") in ("call", "mcall", "ctor") and any(c == d or (d.endswith("::") and c.startswith(d)) or (d.endswith("_") and c.startswith(d)) or c.startswith(d + "<") or c == d for d in IO_DENY):
                r.instance()
                r.fail(f, e, "I/O in the XML parser: %s" % c, "%s calls %s: the parser must never resolve external entities or touch files/sockets" % (short(f.name), c))
    r.instance(n)
    for _ in range(n):
        r.ok("no file/socket/process primitive called")
    if n < 35:
        raise AnalysisBroken("only %d functions of xml.hpp analysed (floor 35)" % n)
    # DOCTYPE content is skipped, not interpreted: readDoctype calls nothing but accessors — directly or through family helpers, which are followed
    # (a helper may only call the same accessors: what it hides would otherwise be hidden from this rule)
    rd = xp(ctx, "readDoctype")
    allowed = {"size", "substr", "advance", "get", "produced", "fail", "operator[]", "basic_string_view", "peek", "eof", "Token", "operator="}
    fam = {}
    for g in methods(ctx):
        fam.setdefault(g.name, []).append(g)

    def leaf_callees(g, seen):
        out = set()
        for e in g.stmts():
            if e.node.get("k") not in ("call", "mcall"):
                continue
            c = e.node.get("callee", "")
            if c in fam and last(c) not in allowed and c not in seen and len(seen) < 6:
                seen.add(c)
                for h in fam[c]:
                    out |= leaf_callees(h, seen)
            else:
                out.add(last(c))
        return out
    callees = leaf_callees(rd, {rd.name})
    r.instance()
    r.expect(callees <= allowed, rd, None, "doctype interpreted",
             "readDoctype calls %s — the internal subset must only be skipped" % sorted(callees), okdesc="DOCTYPE skipped, not interpreted")


def _reach_until_ret(f, bid):
    out, seen, work = [], set(), [bid]
    while work:
        b = work.pop()
        if b is None or b in seen:
            continue
        seen.add(b)
        els = f.blocks[b].elems
        out.extend(els)
        if any(e.kind == "stmt" and e.node.get("k") == "ret" for e in els):
            continue
        work.extend(f.blocks[b].succs)
    return out


def utf8_ref(cp):
    return tuple(chr(cp).encode("utf-8"))


# ----------------------------------------------------------------------------- R5: dataflow anchors (no local names)

def decl_of(f, d):
    """(element, variable record) of the declaration of the local with declaration id `d`"""
    for e in f.stmts():
        if e.node.get("k") == "decl":
            for v in e.node["vars"]:
                if v.get("d") == d:
                    return e, v
    return None, None


def is_var(n, d):
    n = strip_casts(n)
    return n is not None and n.get("k") == "var" and n.get("d") == d


def mentions_d(n, d):
    return any(x.get("k") == "var" and x.get("d") == d for x in walk(n))


def writes_of(f, d):
    """elements that modify the local / parameter with declaration id `d` (assignment, compound assignment, ++/--); the declaration is no write"""
    out = []
    for e in f.stmts():
        n = e.node
        if n.get("k") == "un" and ("++" in n.get("op", "") or "--" in n.get("op", "")) and is_var(n["v"], d):
            out.append(e)
        elif n.get("k") in ("bin", "opcall") and is_assign(n) and is_var(_ap(n)[0], d):
            out.append(e)
    return out


def view_modified(f, d):
    return bool(writes_of(f, d)) or any(e.node.get("k") == "mcall" and is_var(e.node.get("obj"), d) and last(e.node.get("callee", "")) in ("remove_prefix", "remove_suffix", "swap") for e in f.stmts())


def body_suffix(f, n, depth=0):
    """If `n` denotes a string_view that is a SUFFIX of f's first parameter — the parameter itself, or an unmodified local
    initialised with `X.substr(k)` (one argument: it runs to the end) of such a view — the list of offset expressions whose sum is the
    start of the suffix inside the parameter; None otherwise."""
    n = strip_views(n)
    if n is None or n.get("k") != "var" or depth > 4 or view_modified(f, n.get("d")):
        return None
    if n.get("parm") is not None:
        return [] if n["parm"] == 0 else None
    _, v = decl_of(f, n.get("d"))
    if v is None or v.get("init") is None:
        return None
    i = strip_views(v["init"])
    if i is not None and i.get("k") == "var":
        return body_suffix(f, i, depth + 1)
    if i is not None and i.get("k") == "mcall" and last(i.get("callee", "")) == "substr":
        args = [a for a in i.get("args", []) if not a.get("def")]
        base = body_suffix(f, i.get("obj"), depth + 1)
        if len(args) == 1 and base is not None:
            return base + [args[0]]
    return None


def case_value(n, f=None, depth=0):
    """('const', k) or ('cond', declaration id of the tested bool, k when true, k when false) of an integer expression; None otherwise.  With `f`, an
    unmodified local that has an initialiser stands for that initialiser (`firstDigit` declared `= isHex ? 2 : 1`)."""
    n = strip_casts(n)
    if n is None:
        return None
    if f is not None and depth < 3 and n.get("k") == "var" and n.get("parm") is None and const_value(n) is None and not writes_of(f, n.get("d")):
        _, v = decl_of(f, n.get("d"))
        if v is not None and isinstance(v.get("init"), dict):
            return case_value(v["init"], f, depth + 1)
    if const_value(n) is not None:
        return ("const", const_value(n))
    if n.get("k") == "cond" and isinstance(n.get("t"), dict) and isinstance(n.get("f"), dict):
        c = strip_casts(n["c"])
        kt, kf = const_value(n["t"]), const_value(n["f"])
        if c is not None and c.get("k") == "var" and kt is not None and kf is not None:
            return ("cond", c["d"], kt, kf)
    return None


def case_sum(nodes, f=None):
    """case_value of a sum of expressions (at most one of them conditional)"""
    tot, cond = 0, None
    for n in nodes:
        cv = case_value(n, f)
        if cv is None or (cv[0] == "cond" and cond is not None):
            return None
        if cv[0] == "const":
            tot += cv[1]
        else:
            cond = cv
    return ("const", tot) if cond is None else ("cond", cond[1], cond[2] + tot, cond[3] + tot)


def x_test(f, n):
    """(char constant, operator) if n is `S[1] == 'x'` / `S[1] != 'x'` ('x' or 'X', S the whole reference body = first parameter), else None"""
    cp = common.cmp_parts(strip_casts(n)) if n is not None else None
    if not cp or cp[0] not in ("==", "!="):
        return None
    for a, b in ((cp[1], cp[2]), (cp[2], cp[1])):
        a = strip_casts(a)
        if const_value(b) in (ord('x'), ord('X')) and a is not None and a.get("k") == "opcall" and a.get("op") == "[]" and body_suffix(f, a["args"][0]) == [] and const_value(a["args"][1]) == 1:
            return const_value(b), cp[0]
    return None


def ptr_into(f, n, depth=0):
    """(string_view variable node, [offset expressions]) for `S.data()`, `S.data() + k`, `S.begin()`/`S.end()` or an unmodified pointer local holding one"""
    n = strip_casts(n)
    if n is None or depth > 4:
        return None
    if n.get("k") == "mcall" and not [a for a in n.get("args", []) if not a.get("def")] and strip_views(n.get("obj")) is not None and strip_views(n["obj"]).get("k") == "var":
        s = strip_views(n["obj"])
        if last(n.get("callee", "")) in ("data", "begin", "cbegin"):
            return s, []
        if last(n.get("callee", "")) in ("end", "cend"):
            return s, [{"k": "mcall", "callee": "std::basic_string_view::size", "obj": s, "args": []}]
    if n.get("k") == "bin" and n.get("op") == "+":
        for a, b in ((n["lhs"], n["rhs"]), (n["rhs"], n["lhs"])):
            p = ptr_into(f, a, depth + 1)
            if p is not None:
                return p[0], p[1] + [b]
    if n.get("k") == "var" and n.get("parm") is None and not writes_of(f, n.get("d")):
        _, v = decl_of(f, n.get("d"))
        if v is not None and v.get("init") is not None:
            return ptr_into(f, v["init"], depth + 1)
    return None


def is_size_of(n, d):
    n = strip_casts(n)
    return n is not None and n.get("k") == "mcall" and last(n.get("callee", "")) in ("size", "length") and is_var(strip_views(n.get("obj")), d)


def r5(ctx, r):
    """Numeric character references.  Nothing here is identified by a local's name: the code point is the variable handed to encodeUtf8,
    the reference body is appendCharRef's first parameter, digit bytes are locals initialised from a subscript of the body, digit
    values are whatever the accumulator update reads besides the code point."""
    from ..finite import WIDTH, _ty
    from ..expr import children
    acr, enc = xp(ctx, "appendCharRef"), xp(ctx, "encodeUtf8")
    if not acr.params or "string_view" not in acr.params[0]["t"]:
        raise AnalysisBroken("appendCharRef: the first parameter is not the string_view holding the reference body")
    if view_modified(acr, acr.params[0].get("d")):
        raise AnalysisBroken("appendCharRef modifies its reference-body parameter: offsets into it cannot be related to the '#'/'x' prefix")
    encs = [e for e in acr.stmts() if e.node.get("k") in ("call", "mcall") and e.node.get("callee") == enc.name]
    if len(encs) != 1 or not encs[0].node.get("args") or strip_casts(encs[0].node["args"][0]).get("k") != "var" or strip_casts(encs[0].node["args"][0]).get("parm") is not None:
        raise AnalysisBroken("appendCharRef: expected exactly one call encodeUtf8(<local code point>, out)")
    enc_call = encs[0]
    code = strip_casts(enc_call.node["args"][0])
    cd, cname = code["d"], code["n"]
    w, pw = WIDTH.get(_ty(code.get("t"))), WIDTH.get(_ty(enc.params[0]["t"]))
    if w is None or pw is None:
        raise AnalysisBroken("appendCharRef: code point of type %s / encodeUtf8 parameter of type %s" % (code.get("t"), enc.params[0]["t"]))
    accs, fcs, other_w = [], [], []
    for e in acr.stmts():
        n = e.node
        ap = assign_parts(n)
        if ap and is_var(ap[0], cd):
            (accs if mentions_d(ap[1], cd) else other_w).append(e)
        elif n.get("k") in ("bin", "opcall", "un") and e in writes_of(acr, cd):
            other_w.append(e)
        elif n.get("k") in ("call", "mcall") and any(is_var(a, cd) or (strip_casts(a).get("k") == "un" and strip_casts(a).get("op") == "&" and is_var(strip_casts(a)["v"], cd)) for a in n.get("args", [])) and e is not enc_call:
            if n.get("k") == "call" and last(n.get("callee", "")) == "from_chars" and len(n["args"]) >= 3 and is_var(n["args"][2], cd):
                fcs.append(e)
            else:
                other_w.append(e)
    other_w = [e for e in other_w if not (assign_parts(e.node) and const_value(strip_casts(assign_parts(e.node)[1])) == 0)]
    if other_w:
        raise AnalysisBroken("appendCharRef: the code point is also produced by `%s`, a shape the rule cannot classify (known: digit accumulation loops, std::from_chars)" % show(other_w[0].node)[:80])
    if not accs and not fcs:
        raise AnalysisBroken("appendCharRef: the code point handed to encodeUtf8 is neither accumulated digit by digit nor parsed by std::from_chars")
    accepts = [e for e in common.returns(acr) if const_value(strip_casts(e.node.get("v") or {})) != 0]
    if not accepts:
        raise AnalysisBroken("appendCharRef has no accepting return")
    # 'x' prefix tests (branching blocks) — (block, index of the edge taken when byte 1 IS x/X, a character tested).  A block may branch on one
    # disjunct (`a == 'x'` of a short-circuit `||` used as control flow) or on the whole test computed as a value (`if (!(a == 'x' || a == 'X'))`: the
    # disjunct blocks then only compute the value — both their edges lead to the block that branches on the full expression — and are no decisions).
    def x_decision(c, flip=False):
        """(index of the edge taken when byte 1 is x/X, characters tested) for a condition that is an x-test, a disjunction of `==` x-tests, a
        conjunction of `!=` x-tests, or a negation of one of these; None otherwise"""
        c = strip_casts(c)
        if c is None:
            return None
        if c.get("k") == "un" and c.get("op") == "!":
            return x_decision(c["v"], not flip)
        leaves, ops, work = [], set(), [c]
        while work:
            x = strip_casts(work.pop())
            if x.get("k") == "bin" and x.get("op") in ("||", "&&"):
                ops.add(x["op"])
                work += [x["lhs"], x["rhs"]]
            else:
                leaves.append(x_test(acr, x))
        if not leaves or any(l is None for l in leaves) or len(ops) > 1 or len({l[1] for l in leaves}) != 1:
            return None
        eq = leaves[0][1] == "=="
        if (ops == {"||"} and not eq) or (ops == {"&&"} and eq):
            return None
        return ((0 if eq else 1) ^ (1 if flip else 0)), {l[0] for l in leaves}
    xcand = []
    for b in acr.blocks.values():
        if b.cond is not None and len(b.succs) == 2 and b.edge_label(0) is True:
            xd = x_decision(b.cond)
            if xd:
                xcand.append((b, xd[0], xd[1]))
    inner = {x.get("id") for (b, _, _) in xcand for x in walk(b.cond) if x is not strip_casts(b.cond) and x is not b.cond}
    xblocks = [(b, hi, ch) for (b, hi, chars) in xcand if strip_casts(b.cond).get("id") not in inner for ch in sorted(chars)]

    def radix_relation(site, start, base, what):
        """the digits start right behind the prefix and the radix is the one the prefix selects: start 2 / radix 16 exactly when byte 1 is
        x|X, start 1 / radix 10 otherwise"""
        r.instance()
        if start is None or base is None:
            raise AnalysisBroken("appendCharRef: %s: start offset / radix are not constants or `flag ? a : b`" % what)
        if start[0] == "const" and base[0] == "const":
            k, bs = start[1], base[1]
            if not any(c == ord('x') for _, _, c in xblocks):
                raise AnalysisBroken("appendCharRef: no branch on `body[1] == 'x'` recognised")
            if bs == 16:
                path_ok = search(acr, ("entry",), lambda x: x is site, edge_ok=lambda bl, si: not any(bl is xb and si == hi for xb, hi, _ in xblocks), eh=False) is None
            else:
                path_ok = all(dominated_by_edge(acr, site, xb, 1 - hi, eh=False) for xb, hi, _ in xblocks)
            r.expect((k, bs) in ((2, 16), (1, 10)) and path_ok, acr, site, "digits start / radix: %s" % what,
                     "%s reads radix-%d digits from offset %d of the reference body%s: `&#x…;` is hexadecimal from offset 2, `&#…;` decimal from offset 1 — a byte of the reference is skipped or read in the wrong radix"
                     % (what, bs, k, "" if path_ok else " on a path where the 'x' prefix test went the other way"), okdesc="%s: radix %d from offset %d, selected by the 'x' test" % (what, bs, k))
            return
        if start[0] == "cond" and base[0] == "cond" and start[1] == base[1]:
            _, v = decl_of(acr, start[1])
            leaves = []
            work = [strip_casts(v["init"])] if v is not None and v.get("init") is not None else []
            while work:
                x = strip_casts(work.pop())
                if x.get("k") == "bin" and x.get("op") == "||":
                    work += [x["lhs"], x["rhs"]]
                else:
                    leaves.append(x_test(acr, x))
            if not leaves or any(l is None or l[1] != "==" for l in leaves) or not any(l[0] == ord('x') for l in leaves) or writes_of(acr, start[1]):
                raise AnalysisBroken("appendCharRef: %s: the flag selecting offset and radix is not `body[1] == 'x' || body[1] == 'X'`" % what)
            r.expect((start[2], base[2]) == (2, 16) and (start[3], base[3]) == (1, 10), acr, site, "digits start / radix: %s" % what,
                     "%s reads radix %d from offset %d behind an 'x' prefix and radix %d from offset %d otherwise (expected 16 from 2, 10 from 1): a byte of the reference is skipped or read in the wrong radix"
                     % (what, base[2], start[2], base[3], start[3]), okdesc="%s: 'x' ? radix 16 from 2 : radix 10 from 1" % what)
            return
        raise AnalysisBroken("appendCharRef: %s: start offset and radix are not selected by the same test" % what)

    def digit_exact(e, ex, cv, radix, env=None, dvar=None, use=None):
        """the digit expression `ex` (evaluated at element e) over the byte local `cv`.  The bytes that can reach the accumulator update are those allowed by
        the range tests on the byte that dominate e and — when the value is held in the local `dvar` — by the tests on that local that dominate the update
        `use` (`digit >= radix` → fail).  Every such byte must be a digit of the radix and the expression must yield its value: then a byte that is no digit
        cannot be consumed.  The expression is arithmetic on the byte, or a call of a loop-free pure family function of the byte (evaluated exactly)."""
        env = env or {}
        r.instance()
        if not mentions_d(ex, cv["d"]):
            r.fail(acr, e, "digit value: %s" % show(ex)[:20], "the digit value `%s` is not computed from the byte just read: a byte that is no digit is consumed with that value instead of failing the reference" % show(ex)[:60])
            return
        facts = [(c, t) for (c, t) in dominating_facts(acr, e) if mentions_d(c, cv["d"])]
        lo, hi = interval_of(facts, cv["n"])
        dfacts = [(c, t) for (c, t) in dominating_facts(acr, use) if mentions_d(c, dvar["d"])] if dvar is not None and use is not None else []
        if (lo is None or hi is None) and not dfacts:
            r.fail(acr, e, "digit range", "the digit expression `%s` is not delimited by range tests on `%s`: a byte that is no digit is consumed as one" % (show(ex), cv["n"]))
            return
        lo, hi = (-128 if lo is None else lo), (127 if hi is None else hi)
        exs = strip_casts(ex)
        if exs.get("k") in ("call", "mcall") and (exs.get("callee") or "").startswith(XP + "::"):
            gs = [g for g in ctx.fb().funcs(exs["callee"], XF) if g.ok and len(g.params) == 1]
            if len(gs) != 1 or len(exs.get("args", [])) != 1 or not is_var(exs["args"][0], cv["d"]):
                raise AnalysisBroken("digit value `%s`: not a one-argument family function of the byte" % show(ex)[:60])
            try:
                run_g = eval_loopfree(gs[0], gs[0].params[0]["n"], None, lambda n: None)
            except NotPure as exn:
                raise AnalysisBroken("digit helper %s is outside the loop-free pure fragment: %s" % (last(gs[0].name), exn))
            fn = lambda c: run_g(c)[1]
        else:
            free = sorted({x["n"] for x in walk(ex) if x.get("k") == "var" and x.get("d") != cv["d"]})
            if free:
                raise AnalysisBroken("digit expression `%s` reads %s besides the byte" % (show(ex)[:60], free))
            try:
                fn = compile_expr(ex, [cv["n"]])[0]
            except NotPure as exn:
                raise AnalysisBroken("digit expression not pure: %s" % exn)
        tests = []
        for (c, t) in dfacts:
            names = sorted({x["n"] for x in walk(c) if x.get("k") == "var"})
            if any(nm != dvar["n"] and nm not in env for nm in names):
                raise AnalysisBroken("test `%s` on the digit value reads locals the rule cannot evaluate" % show(c)[:60])
            try:
                tests.append((compile_expr(strip_casts(c), names)[0], names, t))
            except NotPure as exn:
                raise AnalysisBroken("test on the digit value not pure: %s" % exn)
        digits = "0123456789abcdefABCDEF" if radix == 16 else "0123456789"
        dom = [c for c in range(lo, hi + 1) if all(bool(tf(*[fn(c) if nm == dvar["n"] else env[nm] for nm in names])) == t for (tf, names, t) in tests)]
        bad = [c for c in dom if not (0 <= c < 128 and chr(c) in digits and fn(c) == int(chr(c), 16))]
        r.expect(not bad, acr, e, "digit value: %s" % show(ex)[:20], "for the byte %r the digit expression `%s` yields %s%s" % (chr(bad[0]) if bad and 0 <= bad[0] < 128 else (bad[0] if bad else ""), show(ex), fn(bad[0]) if bad else "",
                 " and passes the tests in front of the radix-%d accumulator update" % radix if tests else ""), okdesc="`%s` exact on the %d bytes that reach the radix-%d update" % (show(ex)[:24], len(dom), radix))

    full_edges, loops_failed = set(), False
    # ---- form A: digit accumulation loops
    for e in accs:
        rhs = assign_parts(e.node)[1]
        others = []
        for x in walk(rhs):
            if x.get("k") == "var" and x.get("d") != cd and x["n"] not in others:
                others.append(x["n"])
        try:
            fn = compile_expr(rhs, [cname] + others)[0]
        except NotPure as ex:
            raise AnalysisBroken("accumulator update not pure: %s" % ex)
        # locals of the update that are constants or `flag ? a : b` (an unmodified `radix`): the update is judged once per value of the flag
        case_vars = {}
        for x in walk(rhs):
            if x.get("k") == "var" and x.get("d") != cd and x.get("parm") is None and not writes_of(acr, x["d"]):
                _, v_ = decl_of(acr, x["d"])
                cvl = case_value(v_["init"]) if v_ is not None and isinstance(v_.get("init"), dict) else None
                if cvl is not None and v_["init"].get("k") != "int" or (cvl is not None and "const" in (v_.get("t") or "")):
                    case_vars[x["n"]] = cvl
        flags = {c[1] for c in case_vars.values() if c[0] == "cond"}
        if len(flags) > 1:
            raise AnalysisBroken("accumulator update `%s` depends on several flags" % show(rhs)[:60])
        cases = []           # (flag truth or None, {local: value})
        for truth in ((True, False) if flags else (None,)):
            cases.append((truth, {nm: (c[1] if c[0] == "const" else (c[2] if truth else c[3])) for nm, c in case_vars.items()}))
        radices = []
        for truth, env_ in cases:
            vals = [env_.get(nm, 0) for nm in others]
            rx = (fn(1, *vals) - fn(0, *vals)) % (1 << w)
            if rx not in (10, 16) or (fn(3, *vals) - fn(0, *vals)) % (1 << w) != 3 * rx:
                raise AnalysisBroken("accumulator update `%s` is not `code * 10 + d` / `code * 16 + d`" % show(rhs)[:60])
            radices.append(rx)
        radix = radices[0]
        base_case = ("cond", list(flags)[0], radices[0], radices[1]) if flags else ("const", radix)
        # (a) the accumulator cannot wrap: an in-loop magnitude test on the code point, failing edge leaves with false
        guards = [b for b in acr.blocks.values() if b.cond is not None and common.cmp_oriented(b.cond, lambda x: const_value(x) is not None) and is_var(common.cmp_oriented(b.cond, lambda x: const_value(x) is not None)[1], cd)
                  and common.cmp_oriented(b.cond, lambda x: const_value(x) is not None)[0] in (">", ">=")]
        ok, why = False, "no `%s > K` test inside the loop" % cname
        for b in guards:
            op_, _, kk = common.cmp_oriented(b.cond, lambda x: const_value(x) is not None)
            K = const_value(kk) - (1 if op_ == ">=" else 0)
            # every path from the update back to itself passes the guard's false edge, and the true edge returns false
            loop_ok = search(acr, e, lambda x: x is e, stop=lambda x: x.block is b, eh=False) is None and search(acr, e, lambda x: x is e, eh=False) is not None
            if not loop_ok:
                continue
            # with code <= K and the largest digit the exact (unbounded) result must still fit the accumulator and the encoder's parameter
            wraps = max((K << 4) | 15, K * 10 + 9) >= 2 ** min(w, pw)
            tb = acr.blocks[b.succs[0]]
            retf = any(x.kind == "stmt" and x.node.get("k") == "ret" and const_value(strip_casts(x.node.get("v") or {})) == 0 for x in tb.elems)
            if not wraps and retf and K >= 0x10FFFF:
                ok = True
            else:
                why = "the in-loop bound %#x %s" % (K, "still lets the %d-bit accumulator wrap" % min(w, pw) if wraps else ("rejects valid code points" if K < 0x10FFFF else "does not return false"))
        r.instance()
        r.expect(ok, acr, e, "accumulator wrap: %s" % show(rhs)[:24], "the character-reference accumulator `%s = %s` can wrap around 2^%d (%s): &#4294967361; decodes to 'A' instead of being rejected" % (cname, show(rhs), min(w, pw), why),
                 okdesc="accumulator `%s` range-tested inside the loop" % show(rhs)[:24])
        # (b) the loop: `for (idx = k; idx < S.size(); ++idx)` over a suffix S of the body, one byte per iteration
        heads = [b for b in acr.blocks.values() if b.term and b.term.get("k") in ("ForStmt", "WhileStmt", "CXXForRangeStmt") and b.cond is not None and len(b.succs) == 2 and None not in b.succs
                 and dominated_by_edge(acr, e, b, 0, eh=False) and search(acr, e, lambda x, b=b: x.block is b, eh=False) is not None]
        if len(heads) != 1:
            raise AnalysisBroken("appendCharRef: the accumulator update `%s` lies in %d loops (expected one loop over the reference body)" % (show(rhs)[:40], len(heads)))
        h = heads[0]
        co = common.cmp_oriented(h.cond, lambda x: strip_casts(x).get("k") == "mcall" and last(strip_casts(x).get("callee", "")) in ("size", "length") and body_suffix(acr, strip_casts(x).get("obj")) is not None)
        pointer_form = False
        if co and co[0] == "<" and strip_casts(co[1]).get("k") == "var":
            idx, sview = strip_casts(co[1]), strip_views(strip_casts(co[2])["obj"])
            _, iv = decl_of(acr, idx["d"])
            start_offs = [iv.get("init") or {}] if iv is not None else None
        else:
            # pointer form (what a range-for over a view desugars to): `p != end` / `p < end` with p a local pointer starting at S.begin() [+ k] and
            # end == S.end(); `!=` cannot step over the end only when p starts at the very beginning of S
            cp_ = common.cmp_parts(strip_casts(h.cond))
            idx = sview = iv = start_offs = None
            for a_, b_ in (((cp_[1], cp_[2]), (cp_[2], cp_[1])) if cp_ and cp_[0] in ("!=", "<", ">") else ()):
                a_ = strip_casts(a_)
                if a_.get("k") != "var" or a_.get("parm") is not None:
                    continue
                _, iv_ = decl_of(acr, a_.get("d"))
                pi_, pe_ = (ptr_into(acr, iv_["init"]) if iv_ is not None and isinstance(iv_.get("init"), dict) else None), ptr_into(acr, b_)
                if pi_ is None or pe_ is None or pi_[0].get("d") != pe_[0].get("d") or len(pe_[1]) != 1 or not is_size_of(pe_[1][0], pi_[0]["d"]) or body_suffix(acr, pi_[0]) is None:
                    continue
                if cp_[0] == "!=" and pi_[1]:
                    continue
                if (cp_[0] == "<" and a_ is not strip_casts(cp_[1])) or (cp_[0] == ">" and a_ is not strip_casts(cp_[2])):
                    continue
                idx, sview, iv, start_offs, pointer_form = a_, pi_[0], iv_, pi_[1], True
            if idx is None:
                raise AnalysisBroken("appendCharRef: digit loop condition `%s` is neither `index < body.size()` nor `p != body.end()` over a suffix of the reference body" % show(h.cond)[:60])
        incs = writes_of(acr, idx["d"])
        if iv is None or not incs or any(not (x.node.get("k") == "un" and "++" in x.node.get("op", "")) for x in incs):
            raise AnalysisBroken("appendCharRef: the digit loop index `%s` is not a local advanced only by ++" % idx["n"])
        in_h = lambda x: x.block is h
        once = search(acr, ("block", h.succs[0]), in_h, stop=lambda x: x in incs, eh=False) is None and all(search(acr, i_, lambda x: x in incs, stop=in_h, eh=False) is None for i_ in incs)
        if not once:
            raise AnalysisBroken("appendCharRef: the digit loop does not advance `%s` exactly once per iteration" % idx["n"])
        what = "the digit loop" if flags else "the %s digit loop" % ("hexadecimal" if radix == 16 else "decimal")
        radix_relation(e, case_sum(body_suffix(acr, sview) + start_offs, acr), base_case, what)
        # (c) the byte of this iteration: a local initialised `S[idx]` / `*p`, read before the index moves
        cdecls = []
        for x in acr.stmts():
            if x.node.get("k") == "decl" and elem_dominates(acr, x, e, eh=False) and dominated_by_edge(acr, x, h, 0, eh=False):
                for v in x.node["vars"]:
                    i = strip_casts(v.get("init") or {})
                    if not pointer_form and i.get("k") == "opcall" and i.get("op") == "[]" and is_var(strip_views(i["args"][0]), sview["d"]) and is_var(i["args"][1], idx["d"]):
                        cdecls.append((x, v))
                    elif pointer_form and i.get("k") == "un" and i.get("op") == "*" and is_var(i["v"], idx["d"]):
                        cdecls.append((x, v))
        if len(cdecls) != 1:
            raise AnalysisBroken("appendCharRef: %s does not hold the byte `%s[%s]` in exactly one local (%d found)" % (what, sview["n"], idx["n"], len(cdecls)))
        cdecl, cv = cdecls[0]
        if writes_of(acr, cv["d"]) or any(search(acr, cdecl, lambda x, i_=i_: x is i_, stop=lambda x: x is e or in_h(x), eh=False) is not None and search(acr, i_, lambda x: x is e, stop=in_h, eh=False) is not None for i_ in incs):
            raise AnalysisBroken("appendCharRef: the byte local `%s` is modified / the index moves between the read and the accumulator update" % cv["n"])
        # (d) every byte is consumed as a digit: an iteration ends only in the accumulator update or in a failing return — never by going on
        #     to the next byte, leaving the loop or accepting with the byte unused
        r.instance()
        wp = search(acr, ("block", h.succs[0]), lambda x: in_h(x) or x in accepts or x is enc_call, stop=lambda x: x is e, eh=False)
        if wp is not None:
            loops_failed = True
            r.fail(acr, e, "byte of a character reference not consumed as a digit", "%s of appendCharRef can finish an iteration without passing the accumulator update `%s = %s` and without failing: a byte of the reference body that "
                   "is no digit is skipped or ends the number, and the reference is still expanded — `&#65x;` decodes to 'A' instead of being an error" % (what, cname, show(rhs)), witness=witness_str(acr, wp))
        else:
            r.ok("%s: every iteration updates the accumulator or fails" % what)
            full_edges.add((h.id, 1))
        # (e) the digit value: exact on the guard-delimited byte range, hence no other byte reaches the update
        parts = []

        def code_free(n):
            if not mentions_d(n, cd):
                parts.append(n)
                return
            for ch in children(n):
                code_free(ch)
        code_free(rhs)
        nd = 0
        for p in parts:
            if const_value(p) is not None:
                continue
            ps = strip_casts(p)
            if ps.get("k") == "var" and ps["n"] in case_vars:
                continue        # `radix`: fixed per case
            for (truth, env_), rx in zip(cases, radices):
                if mentions_d(p, cv["d"]):
                    nd += 1
                    digit_exact(acr.elem_for(p) or e, p, cv, rx, env_)
                elif ps.get("k") == "var" and ps.get("parm") is None:
                    vw = [x for x in writes_of(acr, ps["d"]) if dominated_by_edge(acr, x, h, 0, eh=False)]
                    dde, ddv = decl_of(acr, ps["d"])
                    by_init = dde is not None and isinstance(ddv.get("init"), dict) and mentions_d(ddv["init"], cv["d"]) and dominated_by_edge(acr, dde, h, 0, eh=False)
                    if by_init:
                        nd += 1
                        digit_exact(dde, ddv["init"], cv, rx, env_, dvar=ddv, use=e)
                    for x in vw:
                        nd += 1
                        digit_exact(x, assign_parts(x.node)[1] if assign_parts(x.node) else x.node, cv, rx, env_, dvar=ddv, use=e)
                    r.instance()
                    wv = None if by_init else search(acr, cdecl, lambda x: x is e, stop=lambda x: x in vw, eh=False)
                    r.expect(wv is None, acr, e, "digit value unset", "%s reaches `%s = %s` on a path where `%s` was not computed from the byte just read (its initial value is used): a byte that is no digit is consumed instead of "
                             "failing the reference" % (what, cname, show(rhs), ps["n"]), okdesc="`%s` assigned from the byte on every path to the update" % ps["n"], witness=witness_str(acr, wv) if wv else None)
                else:
                    raise AnalysisBroken("accumulator update reads `%s`, which is neither the byte nor a local digit value" % show(p)[:50])
        if nd == 0:
            raise AnalysisBroken("appendCharRef: no digit-value expression found for `%s`" % show(rhs)[:40])
    # ---- form B: std::from_chars — strict by itself (no sign, no prefix, no white space), but it STOPS at the first byte that is no digit:
    #      the result is the reference's value only if the error code is clear AND the returned pointer is the end of the body
    for e in fcs:
        n = e.node
        res = [v for x in acr.stmts() if x.node.get("k") == "decl" for v in x.node["vars"] if v.get("init") is not None and strip_views(v["init"]) is n]
        if len(res) != 1 or writes_of(acr, res[0]["d"]):
            raise AnalysisBroken("appendCharRef: the result of std::from_chars is not held in one unmodified local")
        rd = res[0]["d"]
        first, lastp = ptr_into(acr, n["args"][0]), ptr_into(acr, n["args"][1])
        if first is None or lastp is None or first[0].get("d") != lastp[0].get("d") or body_suffix(acr, first[0]) is None or len(lastp[1]) != 1 or not is_size_of(lastp[1][0], first[0]["d"]):
            raise AnalysisBroken("appendCharRef: std::from_chars(%s, %s, …) is not called on [S.data() + k, S.data() + S.size()) of a suffix S of the reference body" % (show(n["args"][0])[:40], show(n["args"][1])[:40]))
        bargs = [a for a in n["args"][3:] if not a.get("def")]
        radix_relation(e, case_sum(body_suffix(acr, first[0]) + first[1], acr), case_value(bargs[0], acr) if bargs else ("const", 10), "std::from_chars")
        r.instance()
        r.expect(w <= pw, acr, e, "code point narrowed", "std::from_chars parses into a %d-bit `%s` that is narrowed to encodeUtf8's %d-bit parameter: values beyond 2^%d wrap instead of being rejected" % (w, cname, pw, pw),
                 okdesc="from_chars target as wide as the encoder's parameter (overflow is an error code)")

        def res_member(x, fld):
            x = strip_casts(x)
            return x is not None and x.get("k") == "member" and last(x.get("n", "")) == fld and is_var(x.get("b"), rd)
        branched = set()
        ptr_e, ec_e = set(), set()
        for b in acr.blocks.values():
            cp = common.cmp_parts(strip_casts(b.cond)) if b.cond is not None and len(b.succs) == 2 and b.edge_label(0) is True else None
            if not cp or cp[0] not in ("==", "!="):
                continue
            eq = 0 if cp[0] == "==" else 1
            for a, o in ((cp[1], cp[2]), (cp[2], cp[1])):
                if res_member(a, "ptr"):
                    branched.add(strip_casts(b.cond).get("id"))
                    po = ptr_into(acr, o)
                    if po is not None and po[0].get("d") == lastp[0].get("d") and len(po[1]) == 1 and is_size_of(po[1][0], lastp[0]["d"]):
                        ptr_e.add((b.id, eq))
                elif res_member(a, "ec"):
                    branched.add(strip_casts(b.cond).get("id"))
                    if (const_value(o) == 0 or o.get("cv") == 0) and "errc" in (strip_casts(a).get("t") or ""):     # `std::errc{}`: the value-initialised cast carries the constant
                        ec_e.add((b.id, eq))
        # comparisons of the result that are computed as VALUES (`bool ok = res.ptr == end && …`) are not followed: refuse rather than alarm
        unbranched = [x for x in acr.nodes.values() if common.cmp_parts(x) and x.get("id") not in branched and any(res_member(y, "ptr") or res_member(y, "ec") for y in (common.cmp_parts(x)[1], common.cmp_parts(x)[2]))]
        for a in accepts:
            w_ptr = search(acr, e, lambda x, a=a: x is a, edge_ok=lambda bl, si: (bl.id, si) not in ptr_e, eh=False)
            w_ec = search(acr, e, lambda x, a=a: x is a, edge_ok=lambda bl, si: (bl.id, si) not in ec_e, eh=False)
            if (w_ptr is not None or w_ec is not None) and unbranched:
                raise AnalysisBroken("appendCharRef: the from_chars result is tested in `%s`, computed as a value rather than branched on — the rule does not follow it" % show(unbranched[0])[:80])
            r.instance()
            r.expect(w_ptr is None, acr, e, "character reference not fully consumed", "appendCharRef parses the reference with std::from_chars(%s, %s, …) and accepts the value on a path that never tests `%s.ptr == %s`: from_chars stops at the "
                     "first byte that is no digit, so the rest of the reference body up to ';' is dropped — `&#65x;`, `&#x41g;`, `&#38amp;` are expanded ('A', 'A', '&') instead of being errors"
                     % (show(n["args"][0])[:30], show(n["args"][1])[:40], res[0]["n"], show(n["args"][1])[:40]), okdesc="from_chars: accepted only with ptr == end of the reference body", witness=witness_str(acr, w_ptr) if w_ptr else None)
            r.instance()
            r.expect(w_ec is None, acr, e, "from_chars error code ignored", "appendCharRef accepts the value of std::from_chars on a path that never tests `%s.ec == std::errc{}`: without digits or on overflow `%s` keeps its old value "
                     "and that is expanded" % (res[0]["n"], cname), okdesc="from_chars: accepted only with a clear error code (digits present, value fits)", witness=witness_str(acr, w_ec) if w_ec else None)
        full_edges |= ptr_e
    # ---- every accepting return lies behind a complete decode: the exit edge of a verified digit loop or a `ptr == end` edge
    if not loops_failed and accs:
        for a in accepts:
            r.instance()
            wa = search(acr, ("entry",), lambda x, a=a: x is a, edge_ok=lambda bl, si: (bl.id, si) not in full_edges, eh=False)
            r.expect(wa is None or bool(fcs), acr, a, "character reference accepted without a complete decode", "appendCharRef reaches an accepting return without leaving a digit loop through its `index < size` test: "
                     "part of the reference body is never looked at", okdesc="accepting return only behind the end of a digit loop / a ptr == end test", witness=witness_str(acr, wa) if wa else None)
    # the encoder, exactly
    outp = [p for p in enc.params if "basic_string" in p["t"] and "&" in p["t"] and "const" not in p["t"]]
    if len(outp) != 1 or len(enc.params) != 2:
        raise AnalysisBroken("encodeUtf8: expected (code point, std::string &out)")
    od = outp[0].get("d")

    def is_app(n):
        if n.get("k") == "mcall" and last(n.get("callee", "")) == "push_back" and is_var(n.get("obj"), od):
            return inline_pure(ctx.fb(), n["args"][0])
        if n.get("k") == "opcall" and n.get("op") == "+=" and is_var(n["args"][0], od):
            return inline_pure(ctx.fb(), n["args"][1])
        return None
    cpp = [p for p in enc.params if p is not outp[0]][0]
    try:
        run = eval_loopfree(enc, cpp["n"], None, is_app)
    except NotPure as ex:
        raise AnalysisBroken("encodeUtf8 is outside the loop-free pure fragment: %s" % ex)
    bad = None
    n = 0
    for cp in list(range(0, 0x110000 + 0x800)) + [0x1FFFFF, 0x200000, 0x7FFFFFFF, 0xFFFFFFFF]:
        out, rv = run(cp)
        n += 1
        valid = cp <= 0x10FFFF and not (0xD800 <= cp <= 0xDFFF)
        if valid:
            if not rv or out != utf8_ref(cp):
                bad = (cp, "is %s with bytes %s; UTF-8 defines %s" % ("accepted" if rv else "rejected", bytes(out).hex() or "-", bytes(utf8_ref(cp)).hex()))
                break
        elif rv:
            bad = (cp, "is accepted (bytes %s) although it is %s" % (bytes(out).hex(), "a surrogate half" if cp <= 0xFFFF else "beyond U+10FFFF"))
            break
    r.instance()
    r.expect(bad is None, enc, None, "UTF-8 encoder", "encodeUtf8: U+%X %s" % (bad if bad else (0, "")), okdesc="encodeUtf8 exact on all %d code points (valid encoded, surrogates and >10FFFF rejected)" % n)
    # the encoder's verdict is propagated: every accepting return is either behind the true edge of a branch on the call, or returns the
    # call's value itself (`return encodeUtf8(code, out);`, possibly as a conjunct)
    r.instance()
    r.expect(all(verdict_propagated(acr, a, enc_call) for a in accepts), acr, enc_call, "encoder verdict dropped", "appendCharRef ignores a failing encodeUtf8", okdesc="encoder failure → appendCharRef fails")


def inline_pure(fb, n, depth=0):
    """`n` with every call of a function of xml.hpp whose whole body is `return <expression>;` replaced by that expression over the call's arguments
    (`continuationByte(cp, 6)` → `(char)(0x80 | cp >> 6 & 0x3F)`): the exact evaluation then sees plain arithmetic.  Other calls are left alone (and refused
    by the evaluator)."""
    from ..facts import _subst_vars
    if not isinstance(n, dict) or depth > 3:
        return n
    if n.get("k") in ("call", "mcall") and n.get("callee") in fb.by_name:
        gs = [g for g in fb.funcs(n["callee"], XF) if g.ok and len(g.params) == len(n.get("args", []))]
        roots = [e for e in gs[0].stmts() if "root" in e.raw] if len(gs) == 1 else []
        if len(roots) == 1 and roots[0].node.get("k") == "ret" and isinstance(roots[0].node.get("v"), dict):
            table = {p_["d"]: inline_pure(fb, a, depth + 1) for p_, a in zip(gs[0].params, n["args"])}
            return inline_pure(fb, _subst_vars(roots[0].node["v"], table), depth + 1)
    out = {}
    for k, v in n.items():
        out[k] = inline_pure(fb, v, depth) if isinstance(v, dict) else ([inline_pure(fb, y, depth) if isinstance(y, dict) else y for y in v] if isinstance(v, list) else v)
    return out


def verdict_propagated(f, ret, call):
    """the return `ret` of f yields true only if `call` (a bool-returning call element of f) did: it returns the call's value itself
    (possibly as a conjunct of `&&`), or it is dominated by the true edge of a branch on the call"""
    v = strip_casts(ret.node.get("v") or {})
    work = [v]
    while work:
        x = strip_casts(work.pop())
        if x is call.node:
            return True
        if x is not None and x.get("k") == "bin" and x.get("op") == "&&":
            work += [x["lhs"], x["rhs"]]
    for b in f.blocks.values():
        if b.cond is None or len(b.succs) != 2:
            continue
        c, st, sf = common.branch(b)
        if c is call.node and st is not None and st != sf:
            if dominated_by_edge(f, ret, b, b.succs.index(st), eh=False):
                return True
    return False


def r6(ctx, r):
    fb = ctx.fb()
    kinds = [last(v["n"]) for v in fb.enums["iora::parsers::xml::TokenKind"]["values"]]
    sax = fb.func("iora::parsers::xml::runSax", file_suffix=XF)
    dom = fb.func("iora::parsers::xml::DomBuilder::build", file_suffix=XF)
    for f in (sax, dom):
        # tokens only through next()/current()
        pc = [e for e in f.stmts() if e.node.get("k") == "mcall" and (e.node.get("callee") or "").startswith(XP + "::")]
        used = {last(e.node["callee"]) for e in pc}
        r.instance()
        r.expect(used <= {"next", "current", "error", "decodeEntities"} and {"next", "current"} <= used, f, None, "token source", "%s uses Parser::%s — SAX and DOM must be driven by the one pull token stream" % (short(f.name), sorted(used)),
                 okdesc="%s: tokens only via next()/current()" % last(f.name))
        sw = [b for b in f.blocks.values() if b.term and b.term.get("k") == "SwitchStmt" and "kind" in show(b.cond or {})]
        r.instance()
        if not sw:
            raise AnalysisBroken("%s: no switch over the token kind (moved into a helper?) — dispatch not followed" % short(f.name))
        pp = [p.get("d") for p in f.params if p["t"].startswith(XP + " &") or "SaxCallbacks" in p["t"]]
        for e in f.stmts():
            if e.node.get("k") in ("call", "mcall", "opcall") and not (e.node.get("callee") or "").startswith(XP + "::") and any(is_var(strip_wrappers(a), d) for a in e.node.get("args", []) for d in pp):
                raise AnalysisBroken("%s hands the parser / the callbacks object to `%s`: what happens to the token stream there is not followed" % (short(f.name), show(e.node)[:60]))
        if not r.expect(len(sw) == 1, f, None, "token switch", "%s has %d switches over the token kind" % (short(f.name), len(sw))):
            continue
        sw = sw[0]
        handled = set()
        for si in range(len(sw.succs)):
            lab = sw.edge_label(si)
            if lab and lab != "default":
                handled |= {last(x["n"]) for x in walk(lab[1]) if x.get("k") == "enum"}
        # fall-through labels share a block: collect labels of all case statements in the function raw label list
        for b in f.blocks.values():
            for lb in (b.raw.get("labels") or ([b.label] if b.label else [])):
                if lb and lb.get("k") == "case" and lb.get("v"):
                    handled |= {last(x["n"]) for x in walk(lb["v"]) if x.get("k") == "enum"}
        must = {"StartElement", "EndElement", "EmptyElement", "Text", "CData", "Comment", "ProcessingInstruction"}
        r.instance()
        r.expect(must <= handled, f, None, "token kind unhandled", "%s has no case for TokenKind::%s: that part of the document is silently missing from this interface" % (short(f.name), ", ".join(sorted(must - handled))),
                 okdesc="%s: all %d content token kinds have a case" % (last(f.name), len(must)))
        r.instance()
        r.expect(set(kinds) >= handled, f, None, "token kinds", "unknown kinds", okdesc="cases ⊆ TokenKind")
        # the loop is driven by next() and the final verdict uses error()
        r.instance()
        lp = [b for b in f.blocks.values() if b.term and b.term.get("k") == "WhileStmt" and b.cond is not None and "next()" in show(b.cond)]
        r.expect(len(lp) == 1 and "error" in used, f, None, "driver loop", "%s is not a `while (parser.next())` loop whose verdict consults parser.error()" % short(f.name), okdesc="%s: while(next()) … error()" % last(f.name))
    # SAX: each case invokes the matching callback with the token.  The callbacks object is the SaxCallbacks parameter, the token is the local
    # bound to parser.current() (dataflow, not names); an invocation is `cb.onX(t)` itself or a call of a local lambda / helper that receives
    # `cb.onX` as an argument and invokes that parameter once with the token.
    cbp = [p for p in sax.params if "SaxCallbacks" in p["t"]]
    if len(cbp) != 1:
        raise AnalysisBroken("runSax: no SaxCallbacks parameter")
    cbmap = {"XmlDecl": "onXmlDecl", "Doctype": "onDoctype", "StartElement": "onStartElement", "EndElement": "onEndElement", "EmptyElement": "onEmptyElement", "Text": "onText", "CData": "onCData", "Comment": "onComment",
             "ProcessingInstruction": "onPI"}
    sw = [b for b in sax.blocks.values() if b.term and b.term.get("k") == "SwitchStmt"][0]
    tok_s = token_local(sax)
    for si in range(len(sw.succs)):
        lab = sw.edge_label(si)
        if not lab or lab == "default":
            continue
        ks = [last(x["n"]) for x in walk(lab[1]) if x.get("k") == "enum"]
        if not ks or ks[0] not in cbmap:
            continue
        els = kind_arm(sax, sw, si, ks[0], tok_s)
        inv = sax_invocations(fb, sax, els, cbp[0].get("d"), tok_s)
        r.instance()
        r.expect(inv == [(cbmap[ks[0]], True)], sax, None, "SAX dispatch: %s" % ks[0], "runSax dispatches TokenKind::%s to %s instead of cb.%s(<the current token>)" % (ks[0], ["%s(%s)" % (c, "token" if t else "?") for c, t in inv], cbmap[ks[0]]),
                 okdesc="%s → %s" % (ks[0], cbmap[ks[0]]))
    # DOM: StartElement pushes, EndElement pops behind the size test, EmptyElement neither; text/attribute values decoded.  The node stack is the
    # local std::vector<Node *>; an arm is followed under the assumption `t.kind == <its kind>` (merged cases that test the kind again), attachments
    # and entity decoding are followed into helpers of the builder.
    sw = [b for b in dom.blocks.values() if b.term and b.term.get("k") == "SwitchStmt"][0]
    tok_d = token_local(dom)
    sds = [v for e in dom.stmts() if e.node.get("k") == "decl" for v in e.node["vars"] if "vector<" in (v.get("t") or "") and "Node *" in (v.get("t") or "")]
    if len(sds) != 1:
        raise AnalysisBroken("DomBuilder::build: %d local std::vector<Node *> (expected the one node stack)" % len(sds))
    sd = sds[0]["d"]
    if any(e.node.get("k") in ("call", "mcall") and any(is_var(strip_wrappers(a), sd) for a in e.node.get("args", [])) for e in dom.stmts()):
        raise AnalysisBroken("DomBuilder::build hands the node stack to another function: pushes and pops there are not followed")
    arms = {}
    for si in range(len(sw.succs)):
        lab = sw.edge_label(si)
        if lab and lab != "default":
            ks = [last(x["n"]) for x in walk(lab[1]) if x.get("k") == "enum"]
            if ks:
                arms[ks[0]] = kind_arm(dom, sw, si, ks[0], tok_d)

    def stack_calls(els, names):
        return [e for e in els if e.kind == "stmt" and e.node.get("k") == "mcall" and last(e.node.get("callee", "")) in names and is_var(e.node.get("obj"), sd)]

    def cur_parent(n, depth=0):
        """`stack.back()`, `*stack.back()` or an unmodified local initialised with it"""
        n = strip_casts(n)
        if n is None or depth > 3:
            return False
        if n.get("k") == "mcall" and last(n.get("callee", "")) == "back" and is_var(n.get("obj"), sd):
            return True
        if n.get("k") == "un" and n.get("op") == "*":
            return cur_parent(n["v"], depth + 1)
        if n.get("k") == "var" and n.get("parm") is None and not writes_of(dom, n.get("d")):
            _, v = decl_of(dom, n.get("d"))
            return v is not None and v.get("init") is not None and cur_parent(v["init"], depth + 1)
        return False

    def children_push(n, base_ok):
        """n is `<base>.children.push_back(…)` / `<base>->children.push_back(…)` with base_ok(<base>)"""
        o = strip_casts(n.get("obj") or {}) if n.get("k") == "mcall" and last(n.get("callee", "")) in ("push_back", "emplace_back") else None
        return o is not None and o.get("k") == "member" and last(o.get("n", "")) == "children" and base_ok(o.get("b"))

    def attachments(els):
        """attachment sites to the current parent: direct, or through a helper that receives the parent and appends to its children exactly once on every path"""
        n = 0
        for e in els:
            if e.kind != "stmt":
                continue
            x = e.node
            if children_push(x, cur_parent):
                n += 1
            elif x.get("k") in ("call", "mcall") and (x.get("callee") or "").startswith("iora::parsers::xml::") and any(cur_parent(a) for a in x.get("args", [])):
                gs = [g for g in fb.funcs(x["callee"], XF) if g.ok and len(g.params) == len(x["args"])]
                if len(gs) != 1:
                    raise AnalysisBroken("DomBuilder::build passes the current parent to %s (%d definitions)" % (last(x["callee"]), len(gs)))
                g = gs[0]
                for j, a in enumerate(x["args"]):
                    if cur_parent(a):
                        att = [y for y in g.stmts() if children_push(y.node, lambda bn: is_var(bn, g.params[j].get("d")))]
                        if len(att) != 1 or search(g, ("entry",), "exit", stop=lambda y: y is att[0], eh=False) is not None or search(g, att[0], lambda y: y is att[0], eh=False) is not None:
                            raise AnalysisBroken("%s does not append to its parent's children exactly once on every path (%d sites)" % (last(g.name), len(att)))
                        n += 1
        return n

    def decode_sites(g, els, depth=0):
        n = 0
        for e in els:
            c = (e.node.get("callee") or "") if e.kind == "stmt" and e.node.get("k") in ("call", "mcall") else ""
            if last(c) == "decodeEntities":
                n += 1
            elif c.startswith("iora::parsers::xml::") and not c.startswith(XP + "::") and depth < 2:
                for h in fb.funcs(c, XF):
                    if h.ok and h is not g:
                        n += decode_sites(h, list(h.stmts()), depth + 1)
        return n
    for k, npush, npop in (("StartElement", 1, 0), ("EmptyElement", 0, 0), ("EndElement", 0, 1), ("Text", 0, 0), ("CData", 0, 0), ("Comment", 0, 0), ("ProcessingInstruction", 0, 0)):
        els = arms.get(k, [])
        r.instance()
        r.expect(len(stack_calls(els, ("push_back", "emplace_back"))) == npush and len(stack_calls(els, ("pop_back",))) == npop, dom, None, "DOM nesting: %s" % k,
                 "the %s case of DomBuilder::build performs %d push / %d pop on the node stack (expected %d / %d): children are attached at the wrong depth"
                 % (k, len(stack_calls(els, ("push_back", "emplace_back"))), len(stack_calls(els, ("pop_back",))), npush, npop), okdesc="%s: %d push, %d pop" % (k, npush, npop))
    for k in ("StartElement", "EmptyElement", "Text", "CData", "Comment", "ProcessingInstruction"):
        els = arms.get(k, [])
        r.instance()
        na = attachments(els)
        r.expect(na == 1, dom, None, "DOM attach: %s" % k, "the %s case does not attach exactly one node to the current parent (%d attachment sites)" % (k, na), okdesc="%s: one child attached to the current parent" % k)
    for k in ("StartElement", "EmptyElement", "Text"):
        els = arms.get(k, [])
        r.instance()
        r.expect(decode_sites(dom, els) == 1, dom, None, "DOM decoding: %s" % k, "the %s case does not decode entities exactly once" % k, okdesc="%s: entities decoded once" % k)


def token_local(f):
    """declaration id of the local bound to `parser.current()` (the token the SAX driver / DOM builder is looking at)"""
    ds = [v["d"] for e in f.stmts() if e.node.get("k") == "decl" for v in e.node["vars"] if v.get("init") is not None and strip_casts(v["init"]).get("k") == "mcall" and strip_casts(v["init"]).get("callee") == XP + "::current"]
    if len(ds) != 1:
        raise AnalysisBroken("%s: the current token is not held in exactly one local initialised from Parser::current()" % short(f.name))
    return ds[0]


def kind_arm(f, sw, si, kind, tok_d):
    """elements on the paths a token of kind `kind` takes from the si-th edge of the switch `sw` to the switch's follow block.  A two-way branch on
    `tok.kind == TokenKind::X` / `!=` inside the arm (two merged cases told apart again) is followed only along the edge that `kind` takes."""
    from collections import Counter
    reach, work = set(), [s for s in sw.succs if s is not None]
    while work:
        b = work.pop()
        if b in reach:
            continue
        reach.add(b)
        work.extend(s for s in f.blocks[b].succs if s is not None)
    tgt = Counter(s for b in reach for s in f.blocks[b].succs if f.blocks[b].term and f.blocks[b].term.get("k") == "BreakStmt" and s is not None)
    follow = tgt.most_common(1)[0][0] if tgt else None
    out, seen, work = [], set(), [sw.succs[si]]
    while work:
        b = work.pop()
        if b in seen or b is None or b == follow or b == sw.id:
            continue
        seen.add(b)
        blk = f.blocks[b]
        out.extend(blk.elems)
        succs = list(blk.succs)
        co = common.cmp_oriented(blk.cond, lambda x: strip_casts(x).get("k") == "enum") if blk.cond is not None and len(succs) == 2 and blk.edge_label(0) is True else None
        if co and co[0] in ("==", "!="):
            m = strip_casts(co[1])
            if m.get("k") == "member" and last(m.get("n", "")) == "kind" and is_var(m.get("b"), tok_d):
                same = last(strip_casts(co[2])["n"]) == kind
                succs = [succs[0]] if same == (co[0] == "==") else [succs[1]]
        work.extend(succs)
    return out


def sax_invocations(fb, f, els, cb_d, tok_d):
    """[(callback member, the current token is the argument)] for every std::function invocation the elements perform: `cb.onX(t)` directly, or a call of a
    local lambda / free helper that is handed `cb.onX` and invokes that parameter at exactly one site"""
    out = []
    for e in els:
        if e.kind != "stmt":
            continue
        n = e.node
        if n.get("k") == "opcall" and n.get("op") == "()" and n.get("callee") == "std::function::operator()":
            tgt = strip_casts(n["args"][0])
            if tgt.get("k") == "member" and is_var(tgt.get("b"), cb_d):
                out.append((last(tgt["n"]), len(n["args"]) == 2 and is_var(n["args"][1], tok_d)))
            else:
                out.append((show(tgt)[:30], False))
        elif (n.get("k") == "opcall" and n.get("op") == "()" and "$lambda" in (n.get("callee") or "")) or n.get("k") == "call":
            args = n["args"][1:] if n.get("k") == "opcall" else n.get("args", [])
            fields = [(j, strip_casts(a)) for j, a in enumerate(args) if strip_casts(a).get("k") == "member" and is_var(strip_casts(a).get("b"), cb_d)]
            if not fields:
                continue
            gs = [g for g in fb.by_name.get(n.get("callee"), []) if g.ok and g.file == f.file]
            if len(gs) != 1 or len(gs[0].params) != len(args):
                raise AnalysisBroken("%s hands a callback to %s, which the rule cannot resolve" % (short(f.name), show(n)[:50]))
            g = gs[0]
            caps = {c["n"]: c.get("d") for (ln, lf) in f.lambdas if lf is g for c in ln.get("caps", [])}
            for j, a in fields:
                invs = [x for x in g.stmts() if x.node.get("k") == "opcall" and x.node.get("op") == "()" and x.node.get("callee") == "std::function::operator()" and is_var(x.node["args"][0], g.params[j].get("d"))]
                if len(invs) != 1 or search(g, invs[0], lambda x: x is invs[0], eh=False) is not None:
                    raise AnalysisBroken("%s: the callback parameter is invoked at %d sites / in a loop" % (short(g.name), len(invs)))
                ia = [strip_casts(y) for y in invs[0].node["args"][1:]]
                tok_ok = len(ia) == 1 and ia[0].get("k") == "var" and ((ia[0].get("cap") and caps.get(ia[0]["n"]) == tok_d) or
                                                                        (ia[0].get("parm") is not None and ia[0]["parm"] < len(args) and is_var(args[ia[0]["parm"]], tok_d)))
                out.append((last(a["n"]), tok_ok))
    return out


def r7(ctx, r):
    """tokenizer tables: which reader produces which token kind with which delimiters; next()'s dispatch"""
    funcs = methods(ctx)
    fam = {}
    for g in funcs:
        fam.setdefault(g.name, []).append(g)

    def kinds_of(f):
        """token kinds f stores into a token's `.kind` — itself or through a family helper that stores its kind parameter (the argument then counts)"""
        return [last(x["n"]) for (_, v) in assignments_to(f, lambda t: t.endswith(".kind"), fam, skip=token_producers(funcs)) for x in (walk(v) if v is not None else [{"k": "enum", "n": "?"}]) if x.get("k") == "enum"]
    kinds = {"readProcessingInstruction": "ProcessingInstruction", "readComment": "Comment", "readCData": "CData", "readDoctype": "Doctype", "readEndTag": "EndElement", "readText": "Text"}
    for fn_, kind in kinds.items():
        f = xp(ctx, fn_)
        ks = kinds_of(f)
        r.instance()
        r.expect(ks == [kind], f, None, "token kind of %s" % fn_, "%s reports token kind %s (expected %s)" % (fn_, ks, kind), okdesc="%s → %s" % (fn_, kind))
    st = xp(ctx, "readStartOrEmptyTag")
    ks = sorted(kinds_of(st))
    r.instance()
    r.expect(ks == ["EmptyElement", "StartElement"], st, None, "token kinds of readStartOrEmptyTag", "readStartOrEmptyTag reports kinds %s" % ks, okdesc="readStartOrEmptyTag → StartElement / EmptyElement")
    # delimiters
    for fn_, lit in (("readComment", "-->"), ("readCData", "]]>")):
        f = xp(ctx, fn_)
        got = [x.get("v") for e in f.stmts() if e.node.get("k") == "mcall" and last(e.node.get("callee", "")) == "readUntil" for x in walk(e.node["args"][0]) if x.get("k") == "str"]
        r.instance()
        r.expect(got == [lit], f, None, "terminator of %s" % fn_, "%s scans for %s (expected %r)" % (fn_, got, lit), okdesc="%s ends at %r" % (fn_, lit))
    pi = xp(ctx, "readProcessingInstruction")
    finds = [(v["n"], [x.get("v") for x in walk(strip_casts(v["init"])["args"][0]) if x.get("k") == "str"]) for e in pi.stmts() if e.node.get("k") == "decl" for v in e.node["vars"]
             if v.get("init") is not None and strip_casts(v["init"]).get("k") == "mcall" and last(strip_casts(v["init"]).get("callee", "")) == "find" and is_input(strip_casts(v["init"]).get("obj")) and strip_casts(v["init"]).get("args")]
    got = [l for _, ls in finds for l in ls]
    # the cursor is moved up to <position found> + 2: a loop `while (_cur < pos + 2) advance()` or a call of a helper doing that with `pos + 2` as its limit argument
    limits = limit_params(funcs, set(fam))
    upto = [lin(q[2]) for b in pi.blocks.values() for q in (common.cmp_both(strip_casts(b.cond)) if b.cond is not None else []) if q[0] in ("<", "<=") and is_cur(q[1]) and lin(q[2]) is not None]
    for e in pi.stmts():
        if e.node.get("k") == "mcall" and e.node.get("callee") in fam:
            for g in fam[e.node["callee"]]:
                upto += [lin(e.node["args"][k]) for k in limits[g].values() if k < len(e.node["args"])]
    r.instance()
    r.expect(got == ["?>"] and len(finds) == 1 and upto == [form(2, (finds[0][0],))], pi, None, "terminator of readProcessingInstruction", "the processing instruction does not end at / skip past `?>` (%s, cursor moved up to %s)" % (got, [show_form(u) if u else "?" for u in upto]),
             okdesc="PI ends at '?>' (+2 consumed)")
    # next(): dispatch on the characters after '<' — an if-chain over a local holding peek() (or peek() itself), or a switch over it
    nx = xp(ctx, "next")

    def peeked(n):
        n = strip_casts(n)
        if n is None:
            return False
        if n.get("k") == "mcall" and n.get("callee") == XP + "::peek":
            return True
        if n.get("k") == "var" and n.get("parm") is None and not writes_of(nx, n.get("d")):
            _, v = decl_of(nx, n.get("d"))
            return v is not None and v.get("init") is not None and peeked(v["init"])
        return False

    def readers_from(bid, limit):
        return [last(e.node["callee"]) for e in _reach_until_ret(nx, bid)[:limit] if e.kind == "stmt" and e.node.get("k") == "mcall" and last(e.node.get("callee", "")).startswith("read")]
    table = {}
    for b in nx.blocks.values():
        co = common.cmp_oriented(b.cond, lambda x: const_value(x) is not None) if b.cond is not None and len(b.succs) == 2 and b.edge_label(0) is True else None
        if co and co[0] in ("==", "!=") and peeked(co[1]):
            table[chr(const_value(co[2]))] = readers_from(b.succs[0 if co[0] == "==" else 1], 14)
        elif b.term and b.term.get("k") == "SwitchStmt" and b.cond is not None and peeked(b.cond):
            for si in range(len(b.succs)):
                lab = b.edge_label(si)
                if lab and lab != "default" and const_value(lab[1]) is not None and b.succs[si] is not None:
                    table[chr(const_value(lab[1]))] = readers_from(b.succs[si], 14)
    r.instance()
    ok = table.get("?", [None])[:1] == ["readProcessingInstruction"] and table.get("/", [None])[:1] == ["readEndTag"] and "<" in table and "!" in table
    r.expect(ok, nx, None, "markup dispatch", "next() dispatches on the character after '<' as %s" % {k: v[:1] for k, v in table.items()}, okdesc="'?' → PI, '/' → end tag, '!' → declarations, else start tag")
    # after `<!`: the matchString chain, in next() itself or in a dispatcher called on the '!' arm (a family function that produces no token itself)
    prod = xp(ctx, "produced")
    disp = [nx]
    for nm in table.get("!", []):
        for g in fam.get(XP + "::" + nm, []):
            if not any(e.node.get("k") == "mcall" and e.node.get("callee") == prod.name for e in g.stmts()):
                disp.append(g)
    ms = [(show(strip_casts(b.cond)), [last(e.node["callee"]) for e in _reach_until_ret(g, b.succs[0])[:6] if e.kind == "stmt" and e.node.get("k") == "mcall" and last(e.node.get("callee", "")).startswith("read")]) for g in disp for b in g.blocks.values()
          if b.cond is not None and strip_casts(b.cond).get("k") == "mcall" and last(strip_casts(b.cond).get("callee", "")) in ("matchString", "matchWordCaseInsensitive")]
    want = {'matchString("--")': "readComment", 'matchString("[CDATA[")': "readCData", 'matchWordCaseInsensitive("DOCTYPE")': "readDoctype"}
    r.instance()
    r.expect(all(any(c == k and v[:1] == [w] for c, v in ms) for k, w in want.items()), nx, None, "declaration dispatch", "after `<!` next() dispatches %s (expected %s)" % (ms, want), okdesc="'--' → comment, '[CDATA[' → CDATA, DOCTYPE → doctype")
    # attribute value quotes: the closing quote is the opening one
    qv = xp(ctx, "readQuotedValue")
    qd = [v for e in qv.stmts() if e.node.get("k") == "decl" for v in e.node["vars"] if v.get("init") is not None and "peek()" in show(v["init"])]
    lp = [b for b in qv.blocks.values() if b.cond is not None and common.cmp_parts(b.cond) and common.cmp_parts(b.cond)[0] == "!=" and "peek()" in show(common.cmp_parts(b.cond)[1]) and qd and key_of_(common.cmp_parts(b.cond)[2]) == qd[0]["n"]]
    r.instance()
    r.expect(len(qd) == 1 and len(lp) == 1, qv, None, "closing quote", "the attribute value does not run to the same quote character that opened it", okdesc="attribute value ends at the opening quote character")


def key_of_(n):
    n = strip_casts(n)
    return n["n"] if n is not None and n.get("k") == "var" else None



def branched_bool(f):
    """variable record of the one bool local of f that a branch tests directly"""
    bools = {v["d"]: v for e in f.stmts() if e.node.get("k") == "decl" for v in e.node["vars"] if (v.get("t") or "").replace("const", "").strip() == "bool"}
    used = {strip_casts(b._raw_cond()).get("d") for b in f.blocks.values() if b._raw_cond() is not None and strip_casts(b._raw_cond()).get("k") == "var"} & set(bools)
    if len(used) != 1:
        raise AnalysisBroken("%s: %d bool locals are branched on (expected exactly the self-closing flag)" % (last(f.name), len(used)))
    return bools[used.pop()]


def attr_param(f):
    ps = [p for p in f.params if "vector<" in p["t"] and "Attribute" in p["t"] and "&" in p["t"] and "const" not in p["t"]]
    if len(ps) != 1:
        raise AnalysisBroken("%s: no std::vector<Attribute> & parameter" % last(f.name))
    return ps[0]


def anchors(ctx, r):
    """No rule identifies a construct through the NAME of a local any more (a rename changes nothing).  What the rules do need is that the constructs can
    be found by dataflow; this rule resolves each of them once, so that a shape the rules cannot anchor is one clear refusal up front."""
    start, end = xp(ctx, "readStartOrEmptyTag"), xp(ctx, "readEndTag")
    for f in (start, end):
        nm = [v["n"] for e in f.stmts() if e.node.get("k") == "decl" for v in e.node["vars"] if v.get("init") is not None and "readName()" in show(v["init"])]
        if len(nm) != 1:
            raise AnalysisBroken("%s: the tag name read by readName() is not held in exactly one local (%s)" % (last(f.name), nm))
        r.instance()
        r.ok("%s: tag name = the local initialised from readName() (`%s`)" % (last(f.name), nm[0]))
    r.instance()
    r.ok("readStartOrEmptyTag: self-closing flag = the bool local that is branched on (`%s`)" % branched_bool(start)["n"])
    r.instance()
    r.ok("readAttributes: attribute list = its std::vector<Attribute> & parameter (`%s`)" % attr_param(xp(ctx, "readAttributes"))["n"])
    for nm in ("runSax", "DomBuilder::build"):
        f = ctx.fb().func("iora::parsers::xml::" + nm, file_suffix=XF)
        token_local(f)
        r.instance()
        r.ok("%s: current token = the local bound to Parser::current()" % nm)


def run(ctx, ck):
    r0 = ck.run_rule("C14-R0", "the constructs the rules are anchored on are found by dataflow (no local name is an anchor; a shape that cannot be anchored is a refusal — exit 2 — not a false alarm)", "anchor resolution", lambda r: anchors(ctx, r))
    if r0.broken:
        return
    ck.run_rule("C14-R1", "cursor and every local index stay inside their buffers; slices start at cursor snapshots; offsets are the cursor", "A7 interprocedural cursor-window abstract interpretation + local windows", lambda r: r1(ctx, r))
    ck.run_rule("C14-R2", "element stack pushed/popped only behind the balance tests; Eof only with an empty stack; errors sticky", "A2 dominance / who-may-write", lambda r: r2(ctx, r))
    ck.run_rule("C14-R3", "every configured limit is tested on every path that grows the bounded quantity", "A2 dominance + loop re-entry search", lambda r: r3(ctx, r))
    ck.run_rule("C14-R4", "entity table is exactly the five predefined names + numeric references; no I/O, DOCTYPE only skipped", "A10 table extraction + A3 deny list", lambda r: r4(ctx, r))
    ck.run_rule("C14-R5", "numeric character references: every byte of the body consumed as a digit (loops fail on a non-digit, from_chars needs ec and ptr == end), no wrap; digit values and UTF-8 encoder exact",
                "A8 + A2 must-pass-through per loop iteration / per accepting return + exact finite-domain evaluation", lambda r: r5(ctx, r))
    ck.run_rule("C14-R7", "tokenizer tables: token kind and delimiters per reader, markup dispatch, matching quotes", "A10 table extraction", lambda r: r7(ctx, r))
    ck.run_rule("C14-R6", "SAX and DOM are driven by the one pull token stream and cover every content token kind", "A3 + exhaustiveness", lambda r: r6(ctx, r))
