"""C14 — The XML parser accepts only balanced documents and reports them faithfully (DESIGN.md §2 C14)."""
from ..cfg import search, witness_str, dominated_by_edge, dominators, Forward, elem_dominates
from ..cursor import CursorProgram
from ..expr import show, walk, last, field_of, strip_wrappers, strip_casts, short, const_value, is_assign, assign_parts as _ap, strip_views
from ..facts import AnalysisBroken
from ..finite import compile_expr, NotPure, dominating_facts, interval_of, flatten_fact, eval_loopfree
from ..rules import common
from ..window import Window, lin, form, show_form, guard_ops, TOP, is_top

TITLE = "The XML parser accepts only balanced documents and reports them faithfully"
TECHNIQUE = 'interprocedural cursor-window abstract interpretation with inlined accessor predicates, validated-position analysis and counted-loop summaries; dominance / who-may-write rules for the element stack; table extraction for entities; exact evaluation of the loop-free UTF-8 encoder over all code points'
XP = "iora::parsers::xml::Parser"
XF = "iora/parsers/xml.hpp"
INPUT, CURF = XP + "::_input", XP + "::_cur"
CUR = "_cur"
SIZE_SYMS = {"_input.size()", "_input.length()"}

EXPLANATION = (
    "Faithfulness of content quantifies over all documents; decided statically are the structural necessary conditions in xml.hpp. "
    "R1 cursor discipline: interprocedural cursor-window abstract interpretation over every Parser method (accessor predicates such as "
    "eof() are inlined, peek()/get()/advance() get the meet of their call sites as pre-condition and a relative post-condition, counted "
    "advance loops are summarised, positions validated by compare()/find()/explicit tests license the catch-up loops) plus one window "
    "per local index over _input/entity slices: every read is inside its buffer, the cursor never passes the end, every slice handed "
    "out in a token starts at a snapshot of the cursor, and error/Eof offsets are the cursor. R2 tag balance: the element stack is "
    "pushed only for a non-empty start tag, popped only behind the `stack non-empty` and `name equals top` tests, Eof is emitted only "
    "with an empty stack, errors are sticky. R3 every configured limit is tested on every path that grows the bounded quantity. "
    "R4 entity decoding recognises exactly the five predefined names and numeric references, everything else is an error, and nothing "
    "in xml.hpp opens files or sockets. R5 numeric references: accumulators are range-tested inside the loop before they can wrap, the "
    "digit-value expressions and the UTF-8 encoder are evaluated exactly over their guard-delimited domains against the definitions "
    "(all of U+0…U+10FFFF, surrogates and larger values rejected). R6 SAX and DOM consume only Parser::next()/current() and their "
    "switches cover every TokenKind.")
NOT_DECIDED = ["that the slices are the *right* slices (content faithfulness beyond bounds, snapshots and table checks)", "UTF-8 validity of the input", "line/column accounting",
               "namespace processing", "agreement with expat"]


def assign_parts(n):
    if n.get("k") in ("bin", "opcall") and is_assign(n) and n.get("op") == "=":
        p = _ap(n)
        return p[0], p[2]
    return None


def xp(ctx, name, nparams=None):
    fs = [f for f in ctx.fb().funcs(XP + "::" + name, XF) if f.ok and (nparams is None or len(f.params) == nparams)]
    if len(fs) != 1:
        raise AnalysisBroken("xml::Parser::%s: %d definitions" % (name, len(fs)))
    return fs[0]


def methods(ctx):
    fs = [f for f in ctx.fb().methods_of(XP) if f.ok and f.kind == "method"]
    if len(fs) < 28:
        raise AnalysisBroken("xml::Parser: only %d methods with a CFG (floor 28)" % len(fs))
    return fs


def is_input(n):
    n = strip_casts(n)
    return n is not None and field_of(n) == INPUT


def is_cur(n):
    n = strip_casts(n)
    return n is not None and n.get("k") == "member" and field_of(n) == CURF


def local_writes(f, name):
    """elements that modify local variable `name` (assignment, ++/--, compound assignment, passed by non-const reference)"""
    out = []
    for e in f.stmts():
        n = e.node
        if n.get("k") == "un" and ("++" in n.get("op", "") or "--" in n.get("op", "")) and strip_casts(n["v"]).get("k") == "var" and strip_casts(n["v"])["n"] == name:
            out.append(e)
        elif n.get("k") in ("bin", "opcall") and is_assign(n):
            l = strip_casts(_ap(n)[0])
            if l.get("k") == "var" and l["n"] == name:
                out.append(e)
    return out


def snapshots(f):
    """locals declared `= _cur` and never modified: positions <= cursor <= size for the rest of the function"""
    out = {}
    for e in f.stmts():
        if e.node.get("k") == "decl":
            for v in e.node["vars"]:
                i = v.get("init")
                if i is not None and is_cur(i) and not local_writes(f, v["n"]):
                    out[v["n"]] = e
    return out


def cursor_moves(f, prog_names):
    """elements of f that (may) move the member cursor"""
    out = []
    for e in f.stmts():
        n = e.node
        if n.get("k") == "un" and ("++" in n.get("op", "")) and is_cur(n["v"]):
            out.append(e)
        elif n.get("k") in ("bin",) and is_assign(n) and is_cur(n["lhs"]):
            out.append(e)
        elif n.get("k") == "mcall" and n.get("callee") in prog_names:
            out.append(e)
    return out


def unit_advancers(funcs):
    """family functions that advance the cursor by exactly one on every path (get(), advance())"""
    unit = set()
    changed = True
    while changed:
        changed = False
        for f in funcs:
            if f.name in unit:
                continue
            incs = [e for e in f.stmts() if e.node.get("k") == "un" and "++" in e.node.get("op", "") and is_cur(e.node["v"])]
            calls = [e for e in f.stmts() if e.node.get("k") == "mcall" and e.node.get("callee") in {g.name for g in funcs}]
            others = [e for e in f.stmts() if e.node.get("k") == "bin" and is_assign(e.node) and is_cur(e.node["lhs"])]
            movers = incs + [c for c in calls if c.node["callee"] in unit]
            nonunit = [c for c in calls if c.node["callee"] not in unit]
            if len(movers) == 1 and not nonunit and not others and elem_dominates(f, movers[0], [e for e in f.blocks[f.exit].elems][0] if f.blocks[f.exit].elems else movers[0], eh=False) is not None:
                # the single mover is on every path: it dominates every return / the exit
                m = movers[0]
                if search(f, ("entry",), "exit", stop=lambda x: x is m, eh=False) is None and search(f, m, lambda x: x is m, eh=False) is None:
                    unit.add(f.name)
                    changed = True
    return unit


def counted_loops(f, unit):
    """`for (j = 0; j < S; ++j) unit();`  ->  {decl elem of j: (S symbol, call elem)}"""
    out = {}
    for b in f.blocks.values():
        if not (b.term and b.term.get("k") == "ForStmt" and b.cond is not None):
            continue
        cp = next((q for q in common.cmp_both(b.cond) if q[0] == "<"), None)
        if not cp or cp[0] != "<":
            continue
        j, s = strip_casts(cp[1]), strip_casts(cp[2])
        if j.get("k") != "var" or s.get("k") != "var":
            continue
        # body: blocks from the true edge back to b
        body, work = [], [b.succs[0]]
        seen = set()
        while work:
            x = work.pop()
            if x is None or x == b.id or x in seen:
                continue
            seen.add(x)
            body.extend(e for e in f.blocks[x].elems if e.kind == "stmt" and "root" in e.raw)
            work.extend(f.blocks[x].succs)
        calls = [e for e in body if e.node.get("k") == "mcall" and e.node.get("callee") in unit]
        incs = [e for e in body if e.node.get("k") == "un" and "++" in e.node.get("op", "") and strip_casts(e.node["v"]).get("n") == j["n"]]
        if len(body) != 2 or len(calls) != 1 or len(incs) != 1:
            continue
        # j starts at 0 in the pre-header, S is not modified in the loop
        decl = [e for e in f.stmts() if e.node.get("k") == "decl" and any(v["n"] == j["n"] and const_value(strip_casts(v.get("init") or {})) == 0 for v in e.node["vars"])]
        if len(decl) != 1 or len(local_writes(f, j["n"])) != 1:
            continue
        if any(w.block.id in seen or w.block.id == b.id for w in local_writes(f, s["n"])):
            continue
        out[decl[0]] = (s["n"], calls[0])
    return out


class ValidBounds:
    """forward analysis: set of linear forms over locals known to be <= _input.size()"""

    def __init__(self, f):
        self.f = f
        self.find_len = {}
        for e in f.stmts():
            if e.node.get("k") == "decl":
                for v in e.node["vars"]:
                    i = strip_casts(strip_wrappers(v.get("init") or {}))
                    if i.get("k") == "mcall" and is_input(i.get("obj")) and last(i.get("callee", "")) == "find" and i.get("args"):
                        lit = [x for x in walk(i["args"][0]) if x.get("k") in ("str", "char")]
                        if len(lit) == 1:
                            self.find_len[v["n"]] = len(lit[0]["v"].encode()) if lit[0]["k"] == "str" else 1
        self.flow = Forward(f, frozenset(), self._transfer, lambda a, b: a & b, edge=self._edge, eh=False)
        self.at_cond = {}
        for b in f.blocks.values():
            if b.cond is not None:
                st = self.flow.at_block_end(b)
                if st is not None:
                    for x in walk(b.cond):
                        if x.get("id") is not None:
                            self.at_cond[x["id"]] = st

    def _transfer(self, st, e):
        if e.kind != "stmt" or not st:
            return st
        n = e.node
        killed = None
        if n.get("k") == "un" and ("++" in n.get("op", "") or "--" in n.get("op", "")) and strip_casts(n["v"]).get("k") == "var":
            killed = strip_casts(n["v"])["n"]
        elif n.get("k") in ("bin", "opcall") and is_assign(n) and strip_casts(_ap(n)[0]).get("k") == "var":
            killed = strip_casts(_ap(n)[0])["n"]
        elif n.get("k") == "decl":
            for v in n["vars"]:
                st = frozenset(x for x in st if v["n"] not in x[1])
        if killed:
            st = frozenset(x for x in st if killed not in x[1])
        return st

    def _edge(self, st, b, si):
        lab = b.edge_label(si)
        if lab is not True and lab is not False or b.cond is None:
            return st
        add = set()
        for (c, truth) in flatten_fact(b.cond, lab):
            for cp in common.cmp_both(c):
                op, l, r = cp
                if not truth:
                    op = {"<": ">=", ">=": "<", ">": "<=", "<=": ">", "==": "!=", "!=": "=="}[op]
                fl, fr = lin(l), lin(r)
                if fl is not None and fr is not None and fr[0] == 0 and len(fr[1]) == 1 and fr[1][0] in SIZE_SYMS and CUR not in fl[1] and fl[1]:
                    if op == "<":
                        add.add(form(fl[0] + 1, fl[1]))
                    elif op == "<=":
                        add.add(fl)
                ls, rs = strip_casts(strip_wrappers(l)), strip_casts(strip_wrappers(r))
                if op == "==" and ls.get("k") == "mcall" and is_input(ls.get("obj")) and last(ls.get("callee", "")) == "compare" and len(ls.get("args", [])) == 3 and const_value(rs) == 0:
                    p, cnt, s = ls["args"]
                    fp = lin(p)
                    ssz = show(strip_casts(strip_wrappers(cnt)))
                    sname = strip_casts(strip_wrappers(s))
                    while sname.get("k") == "ctor" and sname.get("args"):
                        sname = strip_casts(strip_wrappers(sname["args"][0]))
                    if fp is not None and ssz == show(sname) + ".size()":
                        add.add(form(fp[0], list(fp[1]) + [ssz]))
                if op == "!=" and ls.get("k") == "var" and ls["n"] in self.find_len and "npos" in show(rs):
                    add.add(form(self.find_len[ls["n"]], (ls["n"],)))
        return st | frozenset(add) if add else st


def cursor_program(ctx):
    funcs = methods(ctx)
    names = {f.name for f in funcs}
    unit = unit_advancers(funcs)
    if not unit:
        raise AnalysisBroken("no unit-advance accessor (get()/advance()) recognised")
    snaps = {f: snapshots(f) for f in funcs}
    loops = {f: counted_loops(f, unit) for f in funcs}
    loop_calls = {f: {c for (_, c) in loops[f].values()} for f in funcs}
    bounds = {f: ValidBounds(f) for f in funcs}
    movers = {f: cursor_moves(f, names) for f in funcs}

    def alias_ok(f, name, use_elem):
        """snapshot `name` still equals the cursor at use_elem: no cursor move on a path from its declaration to the use"""
        d = snaps[f].get(name)
        if d is None:
            return False
        ms = movers[f]
        for m in ms:
            if m in loop_calls[f]:
                continue
            if search(f, d, lambda x: x is m, eh=False) is not None and search(f, m, lambda x: x is use_elem, eh=False, include_start=False) is not None:
                return False
        return True

    def canon_for(f, use_elem):
        def canon(fm):
            if fm is None:
                return None
            syms = []
            for s in fm[1]:
                if s in snaps[f] and use_elem is not None and alias_ok(f, s, use_elem):
                    syms.append(CUR)
                else:
                    syms.append(s)
            return form(fm[0], syms)
        return canon

    def local_index(f, fm):
        return fm is not None and len(fm[1]) == 1 and fm[1][0] != CUR and fm[1][0] not in snaps[f]

    def elem_ops(f, e):
        n = e.node
        k = n.get("k")
        ops = []
        if e in loops[f]:
            s, _ = loops[f][e]
            return [("need", form(0, (s,)), "advance() × %s" % s), ("adv", form(0, (s,)))]
        if k == "opcall" and n.get("op") == "[]" and is_input(n["args"][0]):
            idx = strip_casts(n["args"][1])
            if idx.get("k") == "un" and idx.get("op") == "post++":
                return None          # the read is covered by the advance requirement at the increment
            fm = canon_for(f, e)(lin(idx))
            if fm is not None and list(fm[1]).count(CUR) == 1:
                ops.append(("need", form(fm[0] + 1, [s for s in fm[1] if s != CUR]), "_input[%s]" % show(idx)))
            elif fm is not None and (local_index(f, fm) or (len(fm[1]) == 1 and fm[1][0] in snaps[f])):
                return None          # local index: separate window
            else:
                ops.append(("need", TOP, "_input[%s] (index not linear in the cursor)" % show(idx)))
        elif k == "un" and n.get("op") in ("++", "pre++", "post++") and is_cur(n["v"]):
            ops.append(("adv", form(1), "_cur++" if n["op"] == "post++" else "++_cur"))
        elif k == "un" and "--" in n.get("op", "") and is_cur(n["v"]):
            ops.append(("need", TOP, "--_cur (cursor moves backwards)"))
        elif k == "bin" and n.get("op") == "+=" and is_cur(n["lhs"]):
            fm = lin(n["rhs"])
            if fm is None or fm[0] < 0:
                ops.append(("need", TOP, "_cur += %s" % show(n["rhs"])))
                ops.append(("reset", None))
            else:
                ops.append(("adv", fm, "_cur += %s" % show(n["rhs"])))
        elif k == "bin" and n.get("op") in ("=", "-=") and is_cur(n["lhs"]):
            ops.append(("need", TOP, "_cur %s %s (cursor re-based)" % (n["op"], show(n["rhs"]))))
            ops.append(("reset", None))
        elif k == "decl":
            for v in n["vars"]:
                if const_value(strip_casts(v.get("init") or {})) == 0 and "long" in (v.get("t") or ""):
                    ops.append(("zerosym", v["n"]))
                else:
                    ops.append(("kill", v["n"]))
        elif k == "un" and n.get("op") in ("++", "pre++", "post++") and strip_casts(n["v"]).get("k") == "var":
            ops.append(("incsym", strip_casts(n["v"])["n"], 1))
        elif k in ("bin", "opcall") and is_assign(n) and strip_casts(_ap(n)[0]).get("k") == "var":
            ops.append(("kill", strip_casts(_ap(n)[0])["n"]))
        return ops or None

    inl = {}
    for g in funcs:
        roots = [e for e in g.stmts() if "root" in e.raw]
        if len(roots) == 1 and roots[0].node.get("k") == "ret" and isinstance(roots[0].node.get("v"), dict) and const_value(strip_casts(roots[0].node["v"])) is None \
                and not any(x.get("k") in ("mcall", "call") and x.get("callee") in names for x in walk(roots[0].node["v"])):
            inl[g.name] = roots[0].node["v"]

    def edge_ops(f, c, truth, prog):
        use = f.elem_for(c)

        def extra(x, t):
            x = strip_casts(x)
            g = prog.callee(x) if x.get("k") in ("mcall", "call") else None
            if g is not None:
                if g.name in inl:
                    return guard_ops(inl[g.name], t, CUR, SIZE_SYMS)
                return [("atleast", prog.post_true[g] if t else prog.post_false[g])]
            cp = next((q for q in common.cmp_both(x) if is_cur(q[1])), None)
            if cp and is_cur(cp[1]):
                op = cp[0] if t else {"<": ">=", ">=": "<", ">": "<=", "<=": ">", "==": "!=", "!=": "=="}[cp[0]]
                fm = lin(cp[2])
                valid = bounds[f].at_cond.get(x.get("id"), frozenset())
                if fm is not None and op == "<" and fm in valid:
                    return [("atleast", form(1))]
                if fm is not None and op == "<=" and form(fm[0] + 1, fm[1]) in valid:
                    return [("atleast", form(1))]
            return None
        return guard_ops(c, truth, CUR, SIZE_SYMS, extra, canon_for(f, use))

    nxt = xp(ctx, "next")
    roots = {nxt: form(0)}
    prog = CursorProgram(funcs, roots, elem_ops, edge_ops, skip_call=lambda f, e: e in loop_calls[f])
    for g in funcs:
        if g.name in unit and prog.rel_any[g] != -1 and not prog.violations:
            raise AnalysisBroken("%s is used as a unit-advance accessor but its relative summary is %s" % (last(g.name), prog.rel_any[g]))
    return prog, funcs, snaps, loops, unit


def buffers_in(f):
    """(buffer text, index var) pairs for subscripts with a local index"""
    out = set()
    for e in f.stmts():
        n = e.node
        if n.get("k") == "opcall" and n.get("op") == "[]":
            b = strip_casts(n["args"][0])
            t = (b.get("t") or "")
            if "string_view" not in t and "basic_string" not in t:
                continue
            idx = strip_casts(n["args"][1])
            if idx.get("k") == "un" and idx.get("op") == "post++":
                idx = strip_casts(idx["v"])
            fm = lin(idx)
            if fm is not None and len(fm[1]) == 1 and strip_casts(idx).get("k") in ("var", "bin") and fm[1][0] != CUR:
                out.add((show(b), fm[1][0]))
    return out


def local_window(f, buf, var, snaps):
    sizes = {buf + ".size()", buf + ".length()"}

    def el(e):
        n = e.node if e.kind == "stmt" else None
        if n is None:
            return None
        if n.get("k") == "opcall" and n.get("op") == "[]" and show(strip_casts(n["args"][0])) == buf:
            idx = strip_casts(n["args"][1])
            if idx.get("k") == "un" and idx.get("op") == "post++":
                return None
            fm = lin(idx)
            if fm and list(fm[1]) == [var]:
                return [("need", form(fm[0] + 1), "%s[%s]" % (buf, show(idx)))]
        if n.get("k") == "un" and n.get("op") in ("++", "pre++", "post++") and strip_casts(n["v"]).get("n") == var and strip_casts(n["v"]).get("k") == "var":
            par = f.nodes.get(f.parent.get(n.get("id")))
            while par is not None and par.get("k") == "cast":
                par = f.nodes.get(f.parent.get(par.get("id")))
            if n["op"] == "post++" and par is not None and par.get("k") == "opcall" and par.get("op") == "[]" and show(strip_casts(par["args"][0])) == buf:
                return [("adv", form(1), "%s[%s++]" % (buf, var))]
            return [("adv", form(1))]
        if n.get("k") in ("bin", "opcall") and is_assign(n) and strip_casts(_ap(n)[0]).get("k") == "var" and strip_casts(_ap(n)[0])["n"] == var:
            return [("reset", None)]
        if n.get("k") == "decl" and any(v["n"] == var for v in n["vars"]):
            return [("reset", None)]
        return None
    return Window(f, lambda c, t: guard_ops(c, t, var, sizes), el, init=None)


def const_index_reads(f):
    out = []
    for e in f.stmts():
        n = e.node
        if n.get("k") == "opcall" and n.get("op") == "[]":
            b = strip_casts(n["args"][0])
            t = (b.get("t") or "")
            if "string_view" not in t and "basic_string" not in t:
                continue
            k = const_value(strip_casts(n["args"][1]))
            if k is not None:
                out.append((e, show(b), k))
    return out


def const_index_ok(f, e, buf, k):
    for (c, truth) in dominating_facts(f, e):
        t = show(strip_casts(c))
        cp = common.cmp_parts(strip_casts(c))
        if cp and show(strip_casts(cp[1])) in (buf + ".size()", buf + ".length()") and const_value(cp[2]) is not None:
            op = cp[0] if truth else {"<": ">=", ">=": "<", ">": "<=", "<=": ">", "==": "!=", "!=": "=="}[cp[0]]
            cv = const_value(cp[2])
            if (op == ">=" and cv >= k + 1) or (op == ">" and cv >= k) or (op == "==" and cv >= k + 1):
                return True
        if t == buf + ".empty()" and truth is False and k == 0:
            return True
    return False


def r1(ctx, r):
    fb = ctx.fb()
    prog, funcs, snaps, loops, unit = cursor_program(ctx)
    nreq = len(prog.checked) + len(prog.violations)
    if nreq < 40:
        raise AnalysisBroken("only %d cursor reads/advances recognised in xml::Parser (floor 40)" % nreq)
    r.instance(nreq)
    for (f, e, what) in prog.checked:
        r.ok("%s: %s inside the input" % (last(f.name), what))
    for (f, e, need, have, what) in prog.violations:
        r.fail(f, e, "outside input: %s" % what.split(" (")[0], "%s performs `%s`, which needs %s byte(s) between the cursor and the end of the input, but only %s known to remain on some path%s: "
               "the parser reads or moves past the end of the input (undefined behaviour on a string_view, slices and offsets outside the input)"
               % (last(f.name), what, show_form(need) if not is_top(need) else "a bound the analysis cannot establish", show_form(have), prog.describe_site(f)))
    nsites = len([1 for (f, e, what) in prog.checked + [(v[0], v[1], v[4]) for v in prog.violations] if "[needs" in what])
    if nsites < 34:
        raise AnalysisBroken("only %d peek/get/advance call-site obligations (floor 34)" % nsites)
    # local index windows over _input and entity slices
    nloc = 0
    for f in funcs:
        for (buf, var) in sorted(buffers_in(f)):
            if var in snaps[f] and buf == "_input":
                # a snapshot used as base (`pos + i`): handled by the cursor program through the alias
                continue
            w = local_window(f, buf, var, snaps)
            nloc += len(w.checked) + len(w.violations)
            r.instance(len(w.checked) + len(w.violations))
            for (e, what) in w.checked:
                r.ok("%s: %s inside %s (index %s)" % (last(f.name), what, buf, var))
            for (e, need, have, what) in w.violations:
                r.fail(f, e, "outside buffer: %s" % what, "%s reads `%s` with no dominating `%s < %s.size()` test on some path" % (last(f.name), what, var, buf))
        for (e, buf, k) in const_index_reads(f):
            nloc += 1
            r.instance()
            r.expect(const_index_ok(f, e, buf, k), f, e, "outside buffer: %s[%d]" % (buf, k), "%s reads `%s[%d]` without a dominating size test" % (last(f.name), buf, k),
                     okdesc="%s: %s[%d] behind a size test" % (last(f.name), buf, k))
    if nloc < 8:
        raise AnalysisBroken("only %d local-index reads recognised (floor 8)" % nloc)
    # slices start at cursor snapshots
    nsl = 0
    ru = xp(ctx, "readUntil")
    ru_out = [p["n"] for p in ru.params if "&" in p["t"]]
    ru_ok = False
    if ru_out:
        ws = [e for e in ru.stmts() if assign_parts(e.node) and strip_casts(assign_parts(e.node)[0]).get("n") == ru_out[0]]
        ru_ok = len(ws) == 1 and is_cur(assign_parts(ws[0].node)[1])
    for f in funcs:
        outargs = set()
        for e in f.stmts():
            if e.node.get("k") == "mcall" and e.node.get("callee") == ru.name and ru_ok and len(e.node["args"]) >= 2:
                outargs.add(strip_casts(e.node["args"][1]).get("n"))
        for e in f.stmts():
            n = e.node
            if n.get("k") == "mcall" and is_input(n.get("obj")) and last(n.get("callee", "")) == "substr" and n.get("args"):
                a = strip_casts(n["args"][0])
                nsl += 1
                r.instance()
                ok = is_cur(a) or (a.get("k") == "var" and (a["n"] in snaps[f] or a["n"] in outargs))
                r.expect(ok, f, e, "slice start: %s" % show(a), "%s builds a slice of the input starting at `%s`, which is neither the cursor nor an unmodified snapshot of it (a start beyond the input throws / points outside)"
                         % (last(f.name), show(a)), okdesc="%s: substr(%s, …) starts at a cursor snapshot" % (last(f.name), show(a)))
    if nsl < 7:
        raise AnalysisBroken("only %d _input.substr sites (floor 7)" % nsl)
    # token views only from slices
    srcs_ok = ("substr", "readName")
    for f in funcs:
        for e in f.stmts():
            ap = assign_parts(e.node)
            if not ap:
                continue
            lt = show(strip_casts(ap[0]))
            if lt not in ("_token.text", "_token.name", "tok.name", "tok.text"):
                continue
            rhs = strip_casts(strip_wrappers(ap[1]))
            r.instance()
            ok = False
            if rhs.get("k") == "mcall" and last(rhs.get("callee", "")) in srcs_ok:
                ok = True
            elif rhs.get("k") == "var":
                defs = [v.get("init") for d in f.stmts() if d.node.get("k") == "decl" for v in d.node["vars"] if v["n"] == rhs["n"]]
                ok = bool(defs) and all(dd is not None and strip_casts(strip_wrappers(dd)).get("k") == "mcall" and last(strip_casts(strip_wrappers(dd)).get("callee", "")) in srcs_ok for dd in defs)
            r.expect(ok, f, e, "token view source: %s" % lt, "%s stores `%s` into %s, which is not a slice of the input produced by substr()/readName()" % (last(f.name), show(rhs)[:40], lt),
                     okdesc="%s: %s is an input slice" % (last(f.name), lt))
    # constructor starts at 0; offsets are the cursor
    ctor = [f for f in fb.methods_of(XP) if f.kind == "ctor" and f.ok]
    r.instance()
    okc = any(assign_parts(e.node) and is_cur(assign_parts(e.node)[0]) and const_value(strip_casts(assign_parts(e.node)[1])) == 0 for c in ctor for e in c.stmts())
    dflt = common.field_default(fb, "xml::Parser", "_cur")
    r.expect(okc or dflt == 0, ctor[0] if ctor else XP, None, "cursor start", "the Parser constructor does not start _cur at 0", okdesc="Parser(): _cur = 0")
    for fn, lhs in (("fail", "_error.offset"), ("emitEof", "_token.offset")):
        g = xp(ctx, fn)
        ws = [e for e in g.stmts() if assign_parts(e.node) and show(strip_casts(assign_parts(e.node)[0])) == lhs]
        r.instance()
        r.expect(len(ws) == 1 and is_cur(assign_parts(ws[0].node)[1]), g, ws[0] if ws else None, "offset source: %s" % lhs, "%s does not report the cursor as offset" % fn, okdesc="%s: %s = _cur" % (fn, lhs))
    r.note("unit-advance accessors: %s; counted advance loops: %d; summaries: %s" % (", ".join(sorted(last(u) for u in unit)), sum(len(v) for v in loops.values()),
           "; ".join("%s pre>=%s" % (last(f.name), show_form(prog.pre[f])) for f in funcs if last(f.name) in ("peek", "get", "advance", "readEndTag", "readStartOrEmptyTag", "readAttributes"))))


def leq1(fm):
    return fm[0] >= 1


STACK = XP + "::_elementStack"
DEPTH = XP + "::_depth"


def stack_ops(f, kinds):
    return [e for e in common.member_calls_on(f, STACK, kinds)]


def r2(ctx, r):
    fb = ctx.fb()
    funcs = methods(ctx) + [f for f in fb.methods_of(XP) if f.kind == "ctor" and f.ok]
    end, start, eof, nxt, fail = xp(ctx, "readEndTag"), xp(ctx, "readStartOrEmptyTag"), xp(ctx, "emitEof"), xp(ctx, "next"), xp(ctx, "fail")
    # who may change the stack
    allowed = {("push_back", start.name), ("emplace_back", start.name), ("pop_back", end.name), ("clear", "ctor")}
    n = 0
    for f in funcs:
        for e in stack_ops(f, ("push_back", "emplace_back", "pop_back", "clear", "erase", "resize", "insert", "assign", "swap")):
            n += 1
            r.instance()
            key = (last(e.node["callee"]), "ctor" if f.kind == "ctor" else f.name)
            r.expect(key in allowed, f, e, "stack modified: %s" % key[0], "%s calls _elementStack.%s — the open-element stack may only be pushed by the start-tag reader and popped by the end-tag reader"
                     % (short(f.name), key[0]), okdesc="%s: %s" % (last(f.name), key[0]))
    if n < 3:
        raise AnalysisBroken("only %d element-stack modifications found" % n)
    # end tag: pop behind both tests, exactly once, before produced()
    pops = stack_ops(end, ("pop_back",))
    prod = [e for e in end.stmts() if e.node.get("k") == "mcall" and last(e.node.get("callee", "")) == "produced"]
    emp = [b for b in end.blocks.values() if b.cond is not None and show(strip_casts(b.cond)) == "_elementStack.empty()"]
    nm = [v["n"] for e in end.stmts() if e.node.get("k") == "decl" for v in e.node["vars"] if v.get("init") is not None and "readName()" in show(v["init"])]
    r.instance()
    if not r.expect(len(pops) == 1 and len(prod) == 1 and len(emp) == 1, end, None, "end tag shape", "readEndTag: expected one pop_back, one produced() and one empty() test; found %d/%d/%d"
                    % (len(pops), len(prod), len(emp)), okdesc="readEndTag: one pop, one produced, empty() test present"):
        return
    if len(nm) != 1:
        raise AnalysisBroken("readEndTag: the name read by readName() is not held in exactly one local (%s)" % nm)
    pop, prd = pops[0], prod[0]
    r.instance()
    r.expect(dominated_by_edge(end, pop, emp[0], 1, eh=False), end, pop, "pop on empty stack", "readEndTag pops (and accepts the end tag) on a path where `_elementStack.empty()` was not tested false: an end tag without a start tag is accepted / pop_back on an empty vector",
             okdesc="pop behind !empty()")
    # the name just read must be found EQUAL (whole strings) to the innermost open name before the pop
    verdicts = []
    for (c, truth) in dominating_facts(end, pop):
        cs = strip_casts(c)
        if not any(x.get("k") == "var" and x["n"] == nm[0] for x in walk(cs)):
            continue
        cp = common.cmp_parts(cs)
        if cp:
            a, b = strip_views(cp[1]), strip_views(cp[2])
            sides = [a, b]
            named = [x for x in sides if x.get("k") == "var" and x["n"] == nm[0]]
            other = [x for x in sides if x not in named]
            eqedge = (cp[0] == "==" and truth) or (cp[0] == "!=" and not truth)
            if named and other and other[0].get("k") in ("mcall", "opcall", "idx", "var", "member") and not const_value(other[0]) == 0 and eqedge:
                verdicts.append(("equal", show(cs)))
                continue
            # X.compare(pos, count, name) ==/!= 0
            cm = [x for x in sides if x.get("k") == "mcall" and last(x.get("callee", "")) == "compare"]
            zero = [x for x in sides if const_value(x) == 0]
            if cm and zero and eqedge:
                args = [x for x in cm[0].get("args", []) if not x.get("def")]
                if len(args) == 1:
                    verdicts.append(("equal", show(cs)))            # whole-string compare
                elif len(args) >= 3 and any(y.get("k") == "var" and y["n"] == nm[0] for y in walk(args[1])):
                    verdicts.append(("prefix", show(cs)))           # count taken from the name just read: only a prefix of the open name is compared
                else:
                    verdicts.append(("unknown", show(cs)))
                continue
            if eqedge or cp[0] in ("==", "!="):
                verdicts.append(("unknown", show(cs)))
    r.instance()
    if any(v == "equal" for v, _ in verdicts):
        r.ok("pop behind `%s`" % [t for v, t in verdicts if v == "equal"][0][:60])
    elif any(v == "prefix" for v, _ in verdicts):
        t = [t for v, t in verdicts if v == "prefix"][0]
        r.fail(end, pop, "end tag name compared as a prefix", "readEndTag accepts the end tag after `%s`: the number of characters compared is the length of the name just read, so only a PREFIX of the innermost open "
               "element's name is compared — `<ab>…</a>` is accepted as balanced" % t[:90])
    elif verdicts:
        raise AnalysisBroken("readEndTag: the comparison between the end-tag name and the open element has a shape the rule cannot classify: %s" % verdicts[0][1][:100])
    else:
        r.fail(end, pop, "pop without name match", "readEndTag pops on a path where the name just read was not compared with the innermost open element: mis-nested documents such as <a><b></a></b> are accepted")
    r.instance()
    r.expect(elem_dominates(end, pop, prd, eh=False) and search(end, pop, lambda x: x is pop, eh=False) is None, end, prd, "end tag produced without pop", "readEndTag reports an EndElement on a path that did not pop exactly one open element",
             okdesc="EndElement produced only after exactly one pop")
    tokname = [e for e in end.stmts() if assign_parts(e.node) and show(strip_casts(assign_parts(e.node)[0])) == "_token.name"]
    r.instance()
    r.expect(len(tokname) == 1 and nm and show(strip_casts(assign_parts(tokname[0].node)[1])) == nm[0], end, tokname[0] if tokname else None, "end tag name", "the EndElement token does not carry the name that was compared", okdesc="EndElement name is the compared name")
    # start tag: push exactly on the non-empty path
    pushes = stack_ops(start, ("push_back", "emplace_back"))
    prods = [e for e in start.stmts() if e.node.get("k") == "mcall" and last(e.node.get("callee", "")) == "produced"]
    eb = [b for b in start.blocks.values() if b.cond is not None and strip_casts(b.cond).get("k") == "var" and strip_casts(b.cond)["n"] == "empty"]
    r.instance()
    if r.expect(len(pushes) == 1 and len(prods) == 2 and len(eb) >= 1, start, None, "start tag shape", "readStartOrEmptyTag: expected one push, two produced() and a test of `empty`; found %d/%d/%d" % (len(pushes), len(prods), len(eb)),
                okdesc="readStartOrEmptyTag: one push, two produced"):
        push = pushes[0]
        ebb = eb[-1] if len(eb) == 1 else [b for b in eb if dominated_by_edge(start, push, b, 1, eh=False)][0] if [b for b in eb if dominated_by_edge(start, push, b, 1, eh=False)] else eb[0]
        r.instance()
        r.expect(dominated_by_edge(start, push, ebb, 1, eh=False), start, push, "push for empty element", "a self-closing element is pushed on the open-element stack (its end tag never comes: the document is rejected, or a later mismatch accepted)",
                 okdesc="push only when !empty")
        pushed_name = show(push.node["args"][0]) if push.node.get("args") else ""
        snm = [v["n"] for e in start.stmts() if e.node.get("k") == "decl" for v in e.node["vars"] if v.get("init") is not None and "readName()" in show(v["init"])]
        r.instance()
        stored_elsewhere = bool(snm) and any(x.kind == "stmt" and x.node.get("k") in ("mcall", "opcall") and (last(x.node.get("callee", "")) in ("append", "insert", "push_back", "emplace_back", "operator+=", "assign") or x.node.get("op") == "+=")
                                              and snm[0] in show(x.node) and x is not push for x in push.block.elems)
        r.expect(snm and (snm[0] in pushed_name or stored_elsewhere), start, push, "pushed name", "neither the value pushed on the open-element stack nor anything stored with it is the tag name just read", okdesc="the tag name just read is recorded with the push")
        for p in prods:
            r.instance()
            on_empty = dominated_by_edge(start, p, ebb, 0, eh=False)
            on_nonempty = dominated_by_edge(start, p, ebb, 1, eh=False)
            ok = (on_empty and search(start, ("entry",), lambda x: x is p, stop=None, eh=False) is not None and not elem_dominates(start, push, p, eh=False)) or (on_nonempty and elem_dominates(start, push, p, eh=False))
            r.expect(ok, start, p, "start tag produced without push", "readStartOrEmptyTag reports a StartElement on a path that did not push it (or an EmptyElement after pushing)", okdesc="produced() consistent with push")
        # the empty flag is true only when '/' was seen
        sets = [e for e in start.stmts() if (assign_parts(e.node) and strip_casts(assign_parts(e.node)[0]).get("n") == "empty")]
        decl = [v for e in start.stmts() if e.node.get("k") == "decl" for v in e.node["vars"] if v["n"] == "empty"]
        r.instance()
        slash_blocks = [b for b in start.blocks.values() if b.cond is not None and common.cmp_parts(b.cond) and common.cmp_parts(b.cond)[0] == "==" and const_value(common.cmp_parts(b.cond)[2]) == ord('/') and "peek()" in show(common.cmp_parts(b.cond)[1])]
        ok = False
        if decl and const_value(strip_casts(decl[0].get("init") or {})) == 0 and sets and slash_blocks:
            ok = all(const_value(strip_casts(assign_parts(e.node)[1])) == 1 and dominated_by_edge(start, e, slash_blocks[0], 0, eh=False) for e in sets)
        elif decl and decl[0].get("init") is not None and not sets:
            i = strip_casts(decl[0]["init"])
            cpi = common.cmp_parts(i)
            ok = bool(cpi) and cpi[0] == "==" and const_value(cpi[2]) == ord('/') and "peek()" in show(cpi[1])
        r.expect(ok, start, None, "empty flag", "`empty` is not exactly 'the character after the attributes is /'", okdesc="empty ⇔ '/' seen")
    # depth paired with the stack: on every path to produced() the net change of _depth is +1 exactly when the element was pushed
    # (start tag) and -1 exactly with the pop (end tag); nothing else writes _depth
    dw = [(f, e) for f in funcs for e in f.stmts() if (e.node.get("k") == "un" and field_of(strip_casts(e.node["v"])) == DEPTH and ("++" in e.node["op"] or "--" in e.node["op"])) or
          (e.node.get("k") == "bin" and is_assign(e.node) and field_of(strip_casts(e.node["lhs"])) == DEPTH)]
    r.instance()
    bad = [(f, e) for f, e in dw if f not in (start, end) and f.kind != "ctor"]
    r.expect(not bad, bad[0][0] if bad else start, bad[0][1] if bad else None, "depth written elsewhere", "_depth is modified outside the start/end tag readers", okdesc="_depth written only by the tag readers (%d sites)" % len(dw))
    from ..predabs import Vocab, PredAbs, A, Not, And, Or
    for (f, stack_elems, want_push, label) in ((start, pushes, True, "start tag"), (end, pops, False, "end tag")):
        vocab = Vocab(["chg", "twice", "stk"])

        def effects(e, f=f, stack_elems=stack_elems):
            if e.kind != "stmt":
                return None
            n = e.node
            if n.get("k") == "un" and field_of(strip_casts(n["v"])) == DEPTH and ("++" in n["op"] or "--" in n["op"]):
                up = "++" in n["op"]
                # net change relative to entry: start tag counts +1 as 'chg', a following -1 undoes it; end tag symmetric
                if (up and f is start) or ((not up) and f is end):
                    return [("assign", "twice", Or(A("twice"), A("chg"))), ("set", "chg", True)]
                return [("assign", "twice", Or(A("twice"), Not(A("chg")))), ("set", "chg", False)]
            if e in stack_elems:
                return [("set", "stk", True)]
            return None
        pa = PredAbs(f, vocab, lambda n: None, effects, init=And(Not(A("chg")), Not(A("twice")), Not(A("stk"))), eh=False)
        ps_ = [e for e in f.stmts() if e.node.get("k") == "mcall" and last(e.node.get("callee", "")) == "produced"]
        for e in ps_:
            r.instance()
            r.expect(pa.entails(e, And(Not(A("twice")), Or(And(A("chg"), A("stk")), And(Not(A("chg")), Not(A("stk")))))), f, e, "depth/stack pairing: %s" % label,
                     "a %s token is produced on a path where the net change of _depth does not match the push/pop of the open-element stack (%s)" % (label, ", ".join(pa.describe(e))), okdesc="%s: depth change ⇔ stack change" % label)
    # Eof only with an empty stack
    seteof = [e for e in eof.stmts() if assign_parts(e.node) and "_emittedEof" in show(assign_parts(e.node)[0])]
    embs = [b for b in eof.blocks.values() if b.cond is not None and "_elementStack.empty()" in show(b.cond)]
    r.instance()
    ok = False
    if len(seteof) == 1 and len(embs) == 1:
        c = strip_casts(embs[0].cond)
        neg = c.get("k") == "un" and c.get("op") == "!"
        ok = dominated_by_edge(eof, seteof[0], embs[0], 1 if neg else 0, eh=False)
    r.expect(ok, eof, seteof[0] if seteof else None, "Eof with open elements", "emitEof marks the document complete on a path where the open-element stack was not tested empty: a truncated document is accepted",
             okdesc="Eof only when the stack is empty")
    others = [(f, e) for f in funcs for e in f.stmts() if assign_parts(e.node) and "_emittedEof" in show(assign_parts(e.node)[0]) and f is not eof and f.kind != "ctor"]
    r.instance()
    r.expect(not others, others[0][0] if others else eof, others[0][1] if others else None, "Eof set elsewhere", "_emittedEof is set outside emitEof()", okdesc="_emittedEof written only by emitEof")
    # errors are sticky: fail() sets _hasError, next() tests it first, nothing clears it
    sets = [(f, e) for f in funcs for e in f.stmts() if assign_parts(e.node) and show(strip_casts(assign_parts(e.node)[0])) == "_hasError"]
    r.instance()
    r.expect(len(sets) == 1 and sets[0][0] is fail and const_value(strip_casts(assign_parts(sets[0][1].node)[1])) == 1, fail, None, "error flag", "_hasError is not set exactly by fail() to true", okdesc="_hasError set only by fail()")
    first = [b for b in nxt.blocks.values() if b.cond is not None and show(strip_casts(b.cond)) == "_hasError"]
    reads = [e for e in nxt.stmts() if e.node.get("k") == "mcall" and last(e.node.get("callee", "")).startswith(("read", "skip", "emitEof"))]
    r.instance()
    r.expect(len(first) == 1 and reads and all(dominated_by_edge(nxt, e, first[0], 1, eh=False) for e in reads), nxt, None, "error not sticky", "next() continues tokenizing after an error was recorded", okdesc="next(): nothing after an error")
    # fail() returns false; produced() returns true
    for g, want in ((fail, 0), (xp(ctx, "produced"), 1)):
        rets = common.returns(g)
        r.instance()
        r.expect(rets and all(const_value(strip_casts(e.node.get("v") or {})) == want for e in rets), g, None, "%s result" % last(g.name), "%s() does not always return %s" % (last(g.name), "true" if want else "false"),
                 okdesc="%s() returns %s" % (last(g.name), "true" if want else "false"))


def r3(ctx, r):
    fb = ctx.fb()
    start, name, text, qv, attrs, nxt, prod = (xp(ctx, n) for n in ("readStartOrEmptyTag", "readName", "readText", "readQuotedValue", "readAttributes", "next", "produced"))
    # depth
    inc = [e for e in start.stmts() if e.node.get("k") == "un" and field_of(strip_casts(e.node["v"])) == DEPTH and "++" in e.node["op"]]
    db = [b for b in start.blocks.values() if b.cond is not None and common.cmp_parts(b.cond) and "maxDepth" in show(b.cond) and "_depth" in show(b.cond)]
    r.instance()
    ok = False
    if len(inc) == 1 and len(db) == 1:
        op, l, rr = common.cmp_parts(db[0].cond)
        fl = lin(l)
        # `_depth + 1 > max` or `_depth >= max`
        strict = (op == ">" and fl is not None and fl[0] >= 1) or (op == ">=" and fl is not None and fl[0] >= 0)
        ok = strict and "maxDepth" in show(rr) and dominated_by_edge(start, inc[0], db[0], 1, eh=False)
    r.expect(ok, start, inc[0] if inc else None, "depth limit", "++_depth is reachable without passing the false edge of `_depth + 1 > maxDepth`", okdesc="maxDepth tested before ++_depth")
    prods_ = [e for e in start.stmts() if e.node.get("k") == "mcall" and last(e.node.get("callee", "")) == "produced"]
    for e in prods_:
        r.instance()
        r.expect(len(db) == 1 and dominated_by_edge(start, e, db[0], 1, eh=False), start, e, "element reported beyond the depth limit", "readStartOrEmptyTag reports an element (depth _depth + 1) on a path that did not pass the "
                 "maxDepth test: an element one level beyond the limit is accepted (e.g. a self-closing leaf)", okdesc="every start/empty element token behind the maxDepth test")
    # name length: every non-empty return of readName is behind the test
    nb = [b for b in name.blocks.values() if b.cond is not None and common.cmp_parts(b.cond) and "maxNameLength" in show(b.cond)]
    rets = [e for e in common.returns(name) if "substr" in show(e.node)]
    r.instance()
    r.expect(len(nb) == 1 and rets and all(dominated_by_edge(name, e, nb[0], 1, eh=False) for e in rets) and (common.cmp_oriented(nb[0].cond, lambda x: "maxNameLength" in show(x)) or ("?",))[0] in (">", ">="), name, rets[0] if rets else None, "name length limit",
             "readName returns a name without the maxNameLength test", okdesc="maxNameLength tested before a name is returned")
    # text span: advance in the loop behind the test
    tb = [b for b in text.blocks.values() if b.cond is not None and common.cmp_parts(b.cond) and "maxTextSpan" in show(b.cond)]
    adv = [e for e in text.stmts() if e.node.get("k") == "mcall" and last(e.node.get("callee", "")) in ("advance", "get")]
    r.instance()
    r.expect(len(tb) == 1 and adv and all(dominated_by_edge(text, e, tb[0], 1, eh=False) and search(text, e, lambda x, e=e: x is e, stop=lambda x: x.block is tb[0], eh=False) is None for e in adv), text, adv[0] if adv else None, "text span limit",
             "readText advances without passing the maxTextSpan test in each iteration", okdesc="maxTextSpan tested per character")
    qb = [b for b in qv.blocks.values() if b.cond is not None and common.cmp_parts(b.cond) and "maxTextSpan" in show(b.cond)]
    qrt = [e for e in common.returns(qv) if const_value(strip_casts(e.node.get("v") or {})) == 1]
    r.instance()
    r.expect(len(qb) == 1 and qrt and all(dominated_by_edge(qv, e, qb[0], 1, eh=False) for e in qrt), qv, None, "attribute value limit", "readQuotedValue succeeds without the maxTextSpan test", okdesc="attribute value length tested")
    # attributes per element
    pushes = [e for e in attrs.stmts() if e.node.get("k") == "mcall" and last(e.node.get("callee", "")) in ("push_back", "emplace_back") and strip_casts(e.node.get("obj") or {}).get("n") == "attrs"]
    ab = [b for b in attrs.blocks.values() if b.cond is not None and common.cmp_parts(b.cond) and "maxAttrsPerElement" in show(b.cond)]
    r.instance()
    ok = len(pushes) == 1 and len(ab) == 1 and search(attrs, pushes[0], lambda x: x is pushes[0], stop=lambda x: x.block is ab[0], eh=False) is None
    if ok:
        rt = [e for e in common.returns(attrs) if const_value(strip_casts(e.node.get("v") or {})) == 1]
        ok = all(search(attrs, pushes[0], lambda x, e=e: x is e, stop=lambda x: x.block is ab[0], eh=False) is None for e in rt)
    r.expect(ok, attrs, pushes[0] if pushes else None, "attribute count limit", "readAttributes can add another attribute or succeed after a push without passing the maxAttrsPerElement test", okdesc="maxAttrsPerElement tested after every push")
    # token budget
    tb = [b for b in nxt.blocks.values() if b.cond is not None and "maxTotalTokens" in show(b.cond) and "_producedTokens" in show(b.cond)]
    reads = [e for e in nxt.stmts() if e.node.get("k") == "mcall" and last(e.node.get("callee", "")).startswith("read")]
    r.instance()
    ok = bool(tb) and len(reads) >= 7
    if ok:
        # the materialised `a && b` condition: the true edge returns fail, every reader is on the other side
        last_b = tb[-1]
        ok = all(search(nxt, ("entry",), lambda x, e=e: x is e, eh=False, edge_ok=lambda b, si: not (b is last_b and si == 0)) is not None and
                 not dominated_by_edge(nxt, e, last_b, 0, eh=False) for e in reads)
        ge = [x for b in tb for x in walk(b.cond) if common.cmp_parts(x) and "_producedTokens" in show(x)]
        ok = ok and ge and common.cmp_parts(ge[0])[0] in (">=", ">")
        tgt = nxt.blocks[last_b.succs[0]]
        ok = ok and any(e.kind == "stmt" and e.node.get("k") == "ret" for e in tgt.elems) and not any(e in reads for e in tgt.elems)
    r.expect(ok, nxt, None, "token limit", "next() reads another token without testing _producedTokens against maxTotalTokens first", okdesc="token budget tested before tokenizing")
    pi = [e for e in prod.stmts() if e.node.get("k") == "un" and "++" in e.node["op"] and "_producedTokens" in show(e.node["v"])]
    r.instance()
    r.expect(len(pi) == 1, prod, None, "token count", "produced() does not count the token", okdesc="produced(): ++_producedTokens")
    # every successful token goes through produced()
    for f in methods(ctx):
        if not last(f.name).startswith("read") or last(f.name) in ("readName", "readUntil", "readQuotedValue", "readAttributes"):
            continue
        for e in common.returns(f):
            v = strip_casts(e.node.get("v") or {})
            if const_value(v) == 1:
                r.instance()
                r.fail(f, e, "token not counted", "%s returns true without produced(): the token is not counted against maxTotalTokens" % last(f.name))
            else:
                r.instance()
                r.ok()


ENTITIES = {"lt": ord('<'), "gt": ord('>'), "amp": ord('&'), "apos": ord("'"), "quot": ord('"')}
IO_DENY = ("fopen", "open", "openat", "socket", "connect", "getaddrinfo", "popen", "system", "dlopen", "mmap", "std::filesystem::", "std::basic_ifstream", "std::basic_fstream", "std::basic_ofstream", "curl_")


def r4(ctx, r):
    fb = ctx.fb()
    de = xp(ctx, "decodeEntities")
    table = {}
    for b in de.blocks.values():
        c = b.cond
        if c is None:
            continue
        cp = common.cmp_parts(c)
        if not cp or cp[0] != "==":
            continue
        lit = [x.get("v") for x in walk(cp[2]) if x.get("k") == "str"]
        if len(lit) != 1 or strip_views(cp[1]).get("n") != "ent":
            continue
        tb = de.blocks[b.succs[0]]
        pushed = [const_value(strip_casts(e.node["args"][0])) for e in tb.elems if e.kind == "stmt" and e.node.get("k") == "mcall" and last(e.node.get("callee", "")) == "push_back" and e.node.get("args")]
        table[lit[0]] = pushed[0] if len(pushed) == 1 else None
    r.instance()
    r.expect(set(table) == set(ENTITIES), de, None, "entity names", "decodeEntities recognises the named entities %s; XML predefines exactly %s (anything else must be an error, never expanded)" % (sorted(table), sorted(ENTITIES)),
             okdesc="exactly the five predefined entity names")
    for k, v in sorted(table.items()):
        r.instance()
        r.expect(ENTITIES.get(k) == v, de, None, "entity &%s;" % k, "&%s; decodes to %r instead of %r" % (k, chr(v) if v else None, chr(ENTITIES[k]) if k in ENTITIES else None), okdesc="&%s; → %r" % (k, chr(v) if v else "?"))
    # '#' goes to appendCharRef, everything else returns false
    acr = [e for e in de.stmts() if e.node.get("k") in ("call", "mcall") and last(e.node.get("callee", "")) == "appendCharRef"]
    hb = [b for b in de.blocks.values() if b.cond is not None and common.cmp_parts(b.cond) and const_value(common.cmp_parts(b.cond)[2]) == ord('#') and "ent[0]" in show(b.cond)]
    r.instance()
    ok = len(acr) == 1 and len(hb) == 1 and dominated_by_edge(de, acr[0], hb[0], 0, eh=False)
    r.expect(ok, de, acr[0] if acr else None, "character reference dispatch", "numeric references are not dispatched on a leading '#'", okdesc="&#…; → appendCharRef")
    r.instance()
    okf = False
    if len(hb) == 1:
        fb_ = de.blocks[hb[0].succs[1]]
        # the false edge (and the `!ent.empty()` false edge) must lead to `return false` without pushing
        w = search(de, ("block", fb_.id), lambda x: x.kind == "stmt" and x.node.get("k") == "mcall" and last(x.node.get("callee", "")) in ("push_back", "append"), stop=lambda x: x.kind == "stmt" and x.node.get("k") == "ret", eh=False)
        rets = [e for e in fb_.elems if e.kind == "stmt" and e.node.get("k") == "ret"]
        w2 = search(de, ("block", fb_.id), lambda x: x.kind == "stmt" and x.node.get("k") == "ret" and const_value(strip_casts(x.node.get("v") or {})) != 0, stop=lambda x: x.kind == "stmt" and x.node.get("k") == "ret" and const_value(strip_casts(x.node.get("v") or {})) == 0, eh=False)
        okf = w is None and w2 is None
    r.expect(okf, de, None, "unknown entity accepted", "an entity name outside the predefined five (and not a numeric reference) does not make decodeEntities return false", okdesc="unknown entity → error")
    # failing char ref → false
    r.instance()
    okc = False
    if acr:
        okv = [v["n"] for e in de.stmts() if e.node.get("k") == "decl" for v in e.node["vars"] if v.get("init") is not None and "appendCharRef" in show(v["init"])]
        nb = [b for b in de.blocks.values() if b.cond is not None and okv and show(common.branch(b)[0] or {}) == okv[0]]
        okc = bool(nb) and any(e.kind == "stmt" and e.node.get("k") == "ret" and const_value(strip_casts(e.node.get("v") or {})) == 0 for e in _reach_until_ret(de, common.branch(nb[0])[2]))
    r.expect(okc, de, None, "bad character reference accepted", "a failing appendCharRef does not fail decodeEntities", okdesc="invalid character reference → error")
    # no I/O anywhere in the header
    n = 0
    for f in fb.in_file(XF):
        if not f.ok:
            continue
        n += 1
        for e in f.stmts():
            nn = e.node
            c = nn.get("callee") or nn.get("cls") or ""
            if nn.get("k") in ("call", "mcall", "ctor") and any(c == d or (d.endswith("::") and c.startswith(d)) or (d.endswith("_") and c.startswith(d)) or c.startswith(d + "<") or c == d for d in IO_DENY):
                r.instance()
                r.fail(f, e, "I/O in the XML parser: %s" % c, "%s calls %s: the parser must never resolve external entities or touch files/sockets" % (short(f.name), c))
    r.instance(n)
    for _ in range(n):
        r.ok("no file/socket/process primitive called")
    if n < 35:
        raise AnalysisBroken("only %d functions of xml.hpp analysed (floor 35)" % n)
    # DOCTYPE content is skipped, not interpreted: readDoctype calls nothing but accessors
    rd = xp(ctx, "readDoctype")
    callees = {last(e.node.get("callee", "")) for e in rd.stmts() if e.node.get("k") in ("call", "mcall")}
    r.instance()
    r.expect(callees <= {"size", "substr", "advance", "get", "produced", "fail", "operator[]", "basic_string_view", "peek", "eof", "Token", "operator="}, rd, None, "doctype interpreted",
             "readDoctype calls %s — the internal subset must only be skipped" % sorted(callees), okdesc="DOCTYPE skipped, not interpreted")


def _reach_until_ret(f, bid):
    out, seen, work = [], set(), [bid]
    while work:
        b = work.pop()
        if b is None or b in seen:
            continue
        seen.add(b)
        els = f.blocks[b].elems
        out.extend(els)
        if any(e.kind == "stmt" and e.node.get("k") == "ret" for e in els):
            continue
        work.extend(f.blocks[b].succs)
    return out


def utf8_ref(cp):
    return tuple(chr(cp).encode("utf-8"))


def r5(ctx, r):
    acr, enc = xp(ctx, "appendCharRef"), xp(ctx, "encodeUtf8")
    # accumulators
    accs = []
    for e in acr.stmts():
        ap = assign_parts(e.node)
        if ap and strip_casts(ap[0]).get("n") == "code" and any(x.get("k") == "var" and x["n"] == "code" for x in walk(ap[1])):
            accs.append(e)
    if len(accs) != 2:
        raise AnalysisBroken("appendCharRef: %d accumulator updates (expected hex and decimal)" % len(accs))
    for e in accs:
        rhs = assign_parts(e.node)[1]
        # the growth factor: evaluate the update at digit 0 symbolically: code' = f(code, d)
        guards = [b for b in acr.blocks.values() if b.cond is not None and common.cmp_parts(b.cond) and strip_casts(common.cmp_parts(b.cond)[1]).get("n") == "code" and common.cmp_parts(b.cond)[0] in (">", ">=")
                  and const_value(common.cmp_parts(b.cond)[2]) is not None]
        ok, why = False, "no `code > K` test inside the loop"
        for b in guards:
            K = const_value(common.cmp_parts(b.cond)[2]) - (1 if common.cmp_parts(b.cond)[0] == ">=" else 0)
            # every path from the update back to itself passes the guard's false edge, and the true edge returns false
            loop_ok = search(acr, e, lambda x: x is e, stop=lambda x: x.block is b, eh=False) is None and search(acr, e, lambda x: x is e, eh=False) is not None
            if not loop_ok:
                continue
            try:
                other = sorted({x["n"] for x in walk(rhs) if x.get("k") == "var" and x["n"] != "code"})
                fn = compile_expr(rhs, ["code"] + other)[0]
                tys = {x["n"]: x.get("t") for x in walk(rhs) if x.get("k") == "var"}
            except NotPure as ex:
                raise AnalysisBroken("accumulator update not pure: %s" % ex)
            # with code <= K and a digit value <= 15 the exact (unbounded) result must be < 2^32
            dmax = 15
            exact_hex = (K << 4) | dmax
            exact_dec = K * 10 + 9
            wraps = max(exact_hex, exact_dec) >= 2 ** 32
            tb = acr.blocks[b.succs[0]]
            retf = any(x.kind == "stmt" and x.node.get("k") == "ret" and const_value(strip_casts(x.node.get("v") or {})) == 0 for x in tb.elems)
            if not wraps and retf and K >= 0x10FFFF:
                ok = True
            else:
                why = "the in-loop bound %#x %s" % (K, "still lets the 32-bit accumulator wrap" if wraps else ("rejects valid code points" if K < 0x10FFFF else "does not return false"))
        r.instance()
        r.expect(ok, acr, e, "accumulator wrap: %s" % show(rhs)[:24], "the character-reference accumulator `code = %s` can wrap around 2^32 (%s): &#4294967361; decodes to 'A' instead of being rejected" % (show(rhs), why),
                 okdesc="accumulator `%s` range-tested inside the loop" % show(rhs)[:24])
    # digit values: exact under their guards
    digs = []
    for e in acr.stmts():
        ap = assign_parts(e.node)
        if ap and strip_casts(ap[0]).get("n") == "v" and any(x.get("k") == "var" and x["n"] == "c" for x in walk(ap[1])):
            digs.append((e, ap[1], "hex"))
    dec_terms = [x for e in accs for x in walk(assign_parts(e.node)[1]) if x.get("k") == "cast" and any(y.get("k") == "var" and y["n"] == "c" for y in walk(x)) and "unsigned" in (x.get("t") or "")]
    for x in dec_terms:
        digs.append((acr.elem_for(x), x, "dec"))
    if len(digs) < 4:
        raise AnalysisBroken("appendCharRef: only %d digit-value expressions found (expected 3 hex + 1 decimal)" % len(digs))
    for (e, ex, kind) in digs:
        facts = dominating_facts(acr, e)
        lo, hi = interval_of(facts, "c")
        r.instance()
        if lo is None or hi is None:
            r.fail(acr, e, "digit range", "the digit expression `%s` is not delimited by range tests on `c`" % show(ex))
            continue
        try:
            fn = compile_expr(ex, ["c"])[0]
        except NotPure as exn:
            raise AnalysisBroken("digit expression not pure: %s" % exn)
        bad = [c for c in range(lo, hi + 1) if not (chr(c) in "0123456789abcdefABCDEF" and (kind == "hex" or chr(c).isdigit()) and fn(c) == int(chr(c), 16))]
        r.expect(not bad, acr, e, "digit value: %s" % show(ex)[:20], "for the character %r the digit expression `%s` yields %s" % (chr(bad[0]) if bad else "", show(ex), fn(bad[0]) if bad else ""),
                 okdesc="`%s` exact on '%s'…'%s'" % (show(ex)[:24], chr(lo), chr(hi)))
    # radix dispatch: 'x'/'X' → hex accumulate from index 2, else decimal from index 1
    r.instance()
    xb = [b for b in acr.blocks.values() if b.cond is not None and any(const_value(x) == ord('x') for x in walk(b.cond) if x.get("k") == "char")]
    r.expect(bool(xb), acr, None, "radix dispatch", "appendCharRef does not dispatch on 'x'", okdesc="&#x…; hex, &#…; decimal")
    # the encoder, exactly
    def is_app(n):
        if n.get("k") == "mcall" and last(n.get("callee", "")) == "push_back" and strip_casts(n.get("obj") or {}).get("n") == "out":
            return n["args"][0]
        if n.get("k") == "opcall" and n.get("op") == "+=" and strip_casts(n["args"][0]).get("n") == "out":
            return n["args"][1]
        return None
    try:
        run = eval_loopfree(enc, enc.params[0]["n"], None, is_app)
    except NotPure as ex:
        raise AnalysisBroken("encodeUtf8 is outside the loop-free pure fragment: %s" % ex)
    bad = None
    n = 0
    for cp in list(range(0, 0x110000 + 0x800)) + [0x1FFFFF, 0x200000, 0x7FFFFFFF, 0xFFFFFFFF]:
        out, rv = run(cp)
        n += 1
        valid = cp <= 0x10FFFF and not (0xD800 <= cp <= 0xDFFF)
        if valid:
            if not rv or out != utf8_ref(cp):
                bad = (cp, "is %s with bytes %s; UTF-8 defines %s" % ("accepted" if rv else "rejected", bytes(out).hex() or "-", bytes(utf8_ref(cp)).hex()))
                break
        elif rv:
            bad = (cp, "is accepted (bytes %s) although it is %s" % (bytes(out).hex(), "a surrogate half" if cp <= 0xFFFF else "beyond U+10FFFF"))
            break
    r.instance()
    r.expect(bad is None, enc, None, "UTF-8 encoder", "encodeUtf8: U+%X %s" % (bad if bad else (0, "")), okdesc="encodeUtf8 exact on all %d code points (valid encoded, surrogates and >10FFFF rejected)" % n)
    # the encoder's verdict is propagated
    r.instance()
    callb = [b for b in acr.blocks.values() if b.cond is not None and "encodeUtf8" in show(b.cond)]
    cbr = common.branch(callb[0]) if len(callb) == 1 else (None, None, None)
    r.expect(len(callb) == 1 and cbr[0] is not None and cbr[0].get("k") in ("call", "mcall") and cbr[2] is not None and
             any(e.kind == "stmt" and e.node.get("k") == "ret" and const_value(strip_casts(e.node.get("v") or {})) == 0 for e in acr.blocks[cbr[2]].elems),
             acr, None, "encoder verdict dropped", "appendCharRef ignores a failing encodeUtf8", okdesc="encoder failure → appendCharRef fails")


def r6(ctx, r):
    fb = ctx.fb()
    kinds = [last(v["n"]) for v in fb.enums["iora::parsers::xml::TokenKind"]["values"]]
    sax = fb.func("iora::parsers::xml::runSax", file_suffix=XF)
    dom = fb.func("iora::parsers::xml::DomBuilder::build", file_suffix=XF)
    for f in (sax, dom):
        # tokens only through next()/current()
        pc = [e for e in f.stmts() if e.node.get("k") == "mcall" and (e.node.get("callee") or "").startswith(XP + "::")]
        used = {last(e.node["callee"]) for e in pc}
        r.instance()
        r.expect(used <= {"next", "current", "error", "decodeEntities"} and {"next", "current"} <= used, f, None, "token source", "%s uses Parser::%s — SAX and DOM must be driven by the one pull token stream" % (short(f.name), sorted(used)),
                 okdesc="%s: tokens only via next()/current()" % last(f.name))
        sw = [b for b in f.blocks.values() if b.term and b.term.get("k") == "SwitchStmt" and "kind" in show(b.cond or {})]
        r.instance()
        if not r.expect(len(sw) == 1, f, None, "token switch", "%s has %d switches over the token kind" % (short(f.name), len(sw))):
            continue
        sw = sw[0]
        handled = set()
        for si in range(len(sw.succs)):
            lab = sw.edge_label(si)
            if lab and lab != "default":
                handled |= {last(x["n"]) for x in walk(lab[1]) if x.get("k") == "enum"}
        # fall-through labels share a block: collect labels of all case statements in the function raw label list
        for b in f.blocks.values():
            for lb in (b.raw.get("labels") or ([b.label] if b.label else [])):
                if lb and lb.get("k") == "case" and lb.get("v"):
                    handled |= {last(x["n"]) for x in walk(lb["v"]) if x.get("k") == "enum"}
        must = {"StartElement", "EndElement", "EmptyElement", "Text", "CData", "Comment", "ProcessingInstruction"}
        r.instance()
        r.expect(must <= handled, f, None, "token kind unhandled", "%s has no case for TokenKind::%s: that part of the document is silently missing from this interface" % (short(f.name), ", ".join(sorted(must - handled))),
                 okdesc="%s: all %d content token kinds have a case" % (last(f.name), len(must)))
        r.instance()
        r.expect(set(kinds) >= handled, f, None, "token kinds", "unknown kinds", okdesc="cases ⊆ TokenKind")
        # the loop is driven by next() and the final verdict uses error()
        r.instance()
        lp = [b for b in f.blocks.values() if b.term and b.term.get("k") == "WhileStmt" and b.cond is not None and "next()" in show(b.cond)]
        r.expect(len(lp) == 1 and "error" in used, f, None, "driver loop", "%s is not a `while (parser.next())` loop whose verdict consults parser.error()" % short(f.name), okdesc="%s: while(next()) … error()" % last(f.name))
    # SAX: each case invokes the matching callback with the token
    cbmap = {"XmlDecl": "onXmlDecl", "Doctype": "onDoctype", "StartElement": "onStartElement", "EndElement": "onEndElement", "EmptyElement": "onEmptyElement", "Text": "onText", "CData": "onCData", "Comment": "onComment",
             "ProcessingInstruction": "onPI"}
    sw = [b for b in sax.blocks.values() if b.term and b.term.get("k") == "SwitchStmt"][0]
    from .c13 import arm_elems
    for si in range(len(sw.succs)):
        lab = sw.edge_label(si)
        if not lab or lab == "default":
            continue
        ks = [last(x["n"]) for x in walk(lab[1]) if x.get("k") == "enum"]
        if not ks or ks[0] not in cbmap:
            continue
        els, _ = arm_elems(sax, sw, si)
        inv = [show(e.node) for e in els if e.kind == "stmt" and e.node.get("k") == "opcall" and e.node.get("op") == "()"]
        r.instance()
        r.expect(len(inv) == 1 and ("cb." + cbmap[ks[0]] + "(") in inv[0] and inv[0].endswith("(t)"), sax, None, "SAX dispatch: %s" % ks[0], "runSax dispatches TokenKind::%s to %s instead of cb.%s(t)" % (ks[0], inv, cbmap[ks[0]]),
                 okdesc="%s → %s" % (ks[0], cbmap[ks[0]]))
    # DOM: StartElement pushes, EndElement pops behind the size test, EmptyElement neither; text/attribute values decoded
    sw = [b for b in dom.blocks.values() if b.term and b.term.get("k") == "SwitchStmt"][0]
    arms = {}
    for si in range(len(sw.succs)):
        lab = sw.edge_label(si)
        if lab and lab != "default":
            ks = [last(x["n"]) for x in walk(lab[1]) if x.get("k") == "enum"]
            if ks:
                arms[ks[0]] = arm_elems(dom, sw, si)[0]

    def stack_calls(els, names):
        return [e for e in els if e.kind == "stmt" and e.node.get("k") == "mcall" and last(e.node.get("callee", "")) in names and strip_casts(e.node.get("obj") or {}).get("n") == "stack"]
    for k, npush, npop in (("StartElement", 1, 0), ("EmptyElement", 0, 0), ("EndElement", 0, 1), ("Text", 0, 0), ("CData", 0, 0), ("Comment", 0, 0), ("ProcessingInstruction", 0, 0)):
        els = arms.get(k, [])
        r.instance()
        r.expect(len(stack_calls(els, ("push_back",))) == npush and len(stack_calls(els, ("pop_back",))) == npop, dom, None, "DOM nesting: %s" % k,
                 "the %s case of DomBuilder::build performs %d push / %d pop on the node stack (expected %d / %d): children are attached at the wrong depth"
                 % (k, len(stack_calls(els, ("push_back",))), len(stack_calls(els, ("pop_back",))), npush, npop), okdesc="%s: %d push, %d pop" % (k, npush, npop))
    for k in ("StartElement", "EmptyElement", "Text", "CData", "Comment", "ProcessingInstruction"):
        els = arms.get(k, [])
        att = [e for e in els if e.kind == "stmt" and e.node.get("k") == "mcall" and last(e.node.get("callee", "")) == "push_back" and "children" in show(e.node.get("obj") or {})]
        r.instance()
        r.expect(len(att) == 1 and "stack.back()" in show(att[0].node.get("obj")) or (len(att) == 1 and "parent" in show(att[0].node.get("obj"))), dom, att[0] if att else None, "DOM attach: %s" % k,
                 "the %s case does not attach exactly one node to the current parent" % k, okdesc="%s: one child attached to the current parent" % k)
    for k in ("StartElement", "EmptyElement", "Text"):
        els = arms.get(k, [])
        dec = [e for e in els if e.kind == "stmt" and e.node.get("k") in ("call", "mcall") and last(e.node.get("callee", "")) == "decodeEntities"]
        r.instance()
        r.expect(len(dec) == 1, dom, None, "DOM decoding: %s" % k, "the %s case does not decode entities exactly once" % k, okdesc="%s: entities decoded once" % k)


def r7(ctx, r):
    """tokenizer tables: which reader produces which token kind with which delimiters; next()'s dispatch"""
    kinds = {"readProcessingInstruction": "ProcessingInstruction", "readComment": "Comment", "readCData": "CData", "readDoctype": "Doctype", "readEndTag": "EndElement", "readText": "Text"}
    for fn_, kind in kinds.items():
        f = xp(ctx, fn_)
        ks = [last(x["n"]) for e in f.stmts() if assign_parts(e.node) and show(strip_casts(assign_parts(e.node)[0])).endswith(".kind") for x in walk(assign_parts(e.node)[1]) if x.get("k") == "enum"]
        r.instance()
        r.expect(ks == [kind], f, None, "token kind of %s" % fn_, "%s reports token kind %s (expected %s)" % (fn_, ks, kind), okdesc="%s → %s" % (fn_, kind))
    st = xp(ctx, "readStartOrEmptyTag")
    ks = sorted(last(x["n"]) for e in st.stmts() if assign_parts(e.node) and show(strip_casts(assign_parts(e.node)[0])).endswith(".kind") for x in walk(assign_parts(e.node)[1]) if x.get("k") == "enum")
    r.instance()
    r.expect(ks == ["EmptyElement", "StartElement"], st, None, "token kinds of readStartOrEmptyTag", "readStartOrEmptyTag reports kinds %s" % ks, okdesc="readStartOrEmptyTag → StartElement / EmptyElement")
    # delimiters
    for fn_, lit in (("readComment", "-->"), ("readCData", "]]>")):
        f = xp(ctx, fn_)
        got = [x.get("v") for e in f.stmts() if e.node.get("k") == "mcall" and last(e.node.get("callee", "")) == "readUntil" for x in walk(e.node["args"][0]) if x.get("k") == "str"]
        r.instance()
        r.expect(got == [lit], f, None, "terminator of %s" % fn_, "%s scans for %s (expected %r)" % (fn_, got, lit), okdesc="%s ends at %r" % (fn_, lit))
    pi = xp(ctx, "readProcessingInstruction")
    got = [x.get("v") for e in pi.stmts() if e.node.get("k") == "mcall" and last(e.node.get("callee", "")) == "find" and is_input(e.node.get("obj")) for x in walk(e.node["args"][0]) if x.get("k") == "str"]
    adv = [b for b in pi.blocks.values() if b.cond is not None and common.cmp_parts(b.cond) and is_cur(common.cmp_parts(b.cond)[1]) and lin(common.cmp_parts(b.cond)[2]) is not None]
    r.instance()
    r.expect(got == ["?>"] and len(adv) == 1 and lin(common.cmp_parts(adv[0].cond)[2])[0] == 2, pi, None, "terminator of readProcessingInstruction", "the processing instruction does not end at / skip past `?>` (%s)" % got, okdesc="PI ends at '?>' (+2 consumed)")
    # next(): dispatch on the characters after '<'
    nx = xp(ctx, "next")
    table = {}
    for b in nx.blocks.values():
        cp = common.cmp_parts(b.cond) if b.cond is not None else None
        if cp and cp[0] == "==" and const_value(cp[2]) is not None and strip_casts(cp[1]).get("k") == "var":
            tb = _reach_until_ret(nx, b.succs[0])[:14]
            calls = [last(e.node["callee"]) for e in tb if e.kind == "stmt" and e.node.get("k") == "mcall" and last(e.node.get("callee", "")).startswith("read")]
            table[chr(const_value(cp[2]))] = calls
    r.instance()
    ok = table.get("?", [None])[:1] == ["readProcessingInstruction"] and table.get("/", [None])[:1] == ["readEndTag"] and "<" in table
    r.expect(ok, nx, None, "markup dispatch", "next() dispatches on the character after '<' as %s" % {k: v[:1] for k, v in table.items()}, okdesc="'?' → PI, '/' → end tag, '!' → declarations, else start tag")
    ms = [(show(strip_casts(b.cond)), [last(e.node["callee"]) for e in _reach_until_ret(nx, b.succs[0])[:6] if e.kind == "stmt" and e.node.get("k") == "mcall" and last(e.node.get("callee", "")).startswith("read")]) for b in nx.blocks.values()
          if b.cond is not None and strip_casts(b.cond).get("k") == "mcall" and last(strip_casts(b.cond).get("callee", "")) in ("matchString", "matchWordCaseInsensitive")]
    want = {'matchString("--")': "readComment", 'matchString("[CDATA[")': "readCData", 'matchWordCaseInsensitive("DOCTYPE")': "readDoctype"}
    r.instance()
    r.expect(all(any(c == k and v[:1] == [w] for c, v in ms) for k, w in want.items()), nx, None, "declaration dispatch", "after `<!` next() dispatches %s (expected %s)" % (ms, want), okdesc="'--' → comment, '[CDATA[' → CDATA, DOCTYPE → doctype")
    # attribute value quotes: the closing quote is the opening one
    qv = xp(ctx, "readQuotedValue")
    qd = [v for e in qv.stmts() if e.node.get("k") == "decl" for v in e.node["vars"] if v.get("init") is not None and "peek()" in show(v["init"])]
    lp = [b for b in qv.blocks.values() if b.cond is not None and common.cmp_parts(b.cond) and common.cmp_parts(b.cond)[0] == "!=" and "peek()" in show(common.cmp_parts(b.cond)[1]) and qd and key_of_(common.cmp_parts(b.cond)[2]) == qd[0]["n"]]
    r.instance()
    r.expect(len(qd) == 1 and len(lp) == 1, qv, None, "closing quote", "the attribute value does not run to the same quote character that opened it", okdesc="attribute value ends at the opening quote character")


def key_of_(n):
    n = strip_casts(n)
    return n["n"] if n is not None and n.get("k") == "var" else None



def anchors(ctx, r):
    tab = [(xp(ctx, "readStartOrEmptyTag"), ["empty", "name"]), (xp(ctx, "readEndTag"), ["name"]), (xp(ctx, "readAttributes"), ["attrs"]), (xp(ctx, "appendCharRef"), ["code", "c", "v"]),
           (xp(ctx, "encodeUtf8"), ["out"]), (xp(ctx, "decodeEntities"), ["ent"]), (ctx.fb().func("iora::parsers::xml::DomBuilder::build", file_suffix=XF), ["stack"])]
    for f, names in tab:
        common.require_names(f, names)
        r.instance()
        r.ok("%s: %s" % (last(f.name), ", ".join(names)))


def run(ctx, ck):
    r0 = ck.run_rule("C14-R0", "the local names the rules are anchored on exist (a rename makes the analysis refuse — exit 2 — instead of raising a false alarm)", "anchor table", lambda r: anchors(ctx, r))
    if r0.broken:
        return
    ck.run_rule("C14-R1", "cursor and every local index stay inside their buffers; slices start at cursor snapshots; offsets are the cursor", "A7 interprocedural cursor-window abstract interpretation + local windows", lambda r: r1(ctx, r))
    ck.run_rule("C14-R2", "element stack pushed/popped only behind the balance tests; Eof only with an empty stack; errors sticky", "A2 dominance / who-may-write", lambda r: r2(ctx, r))
    ck.run_rule("C14-R3", "every configured limit is tested on every path that grows the bounded quantity", "A2 dominance + loop re-entry search", lambda r: r3(ctx, r))
    ck.run_rule("C14-R4", "entity table is exactly the five predefined names + numeric references; no I/O, DOCTYPE only skipped", "A10 table extraction + A3 deny list", lambda r: r4(ctx, r))
    ck.run_rule("C14-R5", "numeric character references cannot wrap; digit values and UTF-8 encoder exact", "A8 + exact finite-domain evaluation", lambda r: r5(ctx, r))
    ck.run_rule("C14-R7", "tokenizer tables: token kind and delimiters per reader, markup dispatch, matching quotes", "A10 table extraction", lambda r: r7(ctx, r))
    ck.run_rule("C14-R6", "SAX and DOM are driven by the one pull token stream and cover every content token kind", "A3 + exhaustiveness", lambda r: r6(ctx, r))
