"""C19 — DNS messages decode exactly or are rejected; cached answers honour TTL (DESIGN.md §2 C19)."""
from ..cfg import search, witness_str, dominated_by_edge, elem_dominates, dominators
from ..expr import show, walk, last, field_of, strip_wrappers, strip_casts, short, const_value, is_assign, assign_parts as _ap, strip_views
from ..facts import AnalysisBroken
from ..finite import dominating_facts, flatten_fact
from ..predabs import Vocab, PredAbs, A, Not, And, Or, T, F
from ..rules import common
from ..window import Window, lin, form, show_form, guard_ops, TOP, is_top
from .c15 import asg, key_of, _reach_until_ret, handler_covers

TITLE = "DNS messages decode exactly or are rejected; cached answers honour TTL"
TECHNIQUE = 'cursor-window abstract interpretation of every DNS decode function (checkBounds idiom, symbolic 8/16-bit lengths) and constant-index reads behind dominating size tests; dominance rules for pointer range / visited set; handler coverage; table agreement between DnsResult and the minimum-TTL computation; must-store of the fresh expiration'
DM = "iora::network::dns::DnsMessage"
DC = "iora::network::dns::DnsCache"
DT = "iora::network::dns::DnsTransport"
EC = "iora::util::ExpiringCache"
DMF, DCF, DTF, DYF, ECF = "dns/dns_message.hpp", "dns/dns_cache.hpp", "dns/dns_transport.hpp", "dns/dns_types.hpp", "util/expiring_cache.hpp"

EXPLANATION = (
    "Exact decoding quantifies over all messages; decided statically are its structural necessary conditions. R1 window discipline: a "
    "cursor-window abstract interpretation of every DnsMessage decode function (cursor/limit pairs offset/size, rdataOffset/rdataSize, "
    "consumedInRdata/rdataSize, local offsets over rr.rdata; the throwing checkBounds(off, n, total) call is the window-establishing "
    "idiom; symbolic lengths rdlength/length/len must be the same expression in guard and use) proves every byte, 16/32-bit read and "
    "copied range inside the window established since the cursor last moved, plus constant-index reads of RDATA behind a dominating "
    "size test; checkBounds itself is the non-wrapping `offset + needed > total → throw`. R2 compression pointers: the jump is behind "
    "`pointer >= size → throw` and the visited-set test, the insert precedes the jump; label <= 63 and name <= 255 tests; every loop "
    "iteration moves the cursor or leaves. R3 section loops are driven by the 16-bit header counts through the R1-guarded readers, in "
    "parse() itself or in a helper that parse() hands the count to (loop bound = that parameter, cursor threaded, returned and stored). "
    "R4 parse failures are contained: DnsTransport::processResponse parses inside a try covering std::exception and completes the "
    "pending query with the error; the typed-record dispatcher contains its own failures. R5 the cache key is the case-folded name, "
    "type and class, built only through DnsCacheKey::fromQuestion, compared on all three. R6 expiry: ExpiringCache::get returns a value "
    "only on the `expiration > now` edge, set() stores a freshly computed expiration on every path (also when the key exists), "
    "DnsCache::put uses the minimum TTL over every record collection of DnsResult (table agreement with the struct; a collection may be "
    "folded by a loop in calculateResultTtl or by a helper that lowers a by-reference accumulator, all folds into the one returned variable), "
    "zero TTLs are not handed to the default-TTL sentinel. R7 encoder limits: every label is followed by the wire-size test before the name "
    "is returned, and the constant fits what `encoded` holds when the test runs (255 with the root octet, 254 before it); query/decoder field order agree. R8 RDATA of A/AAAA/TXT is opaque: no "
    "rejection by byte content.")
# exempt from the function-inventory guard (report.py).  Both rules look into helpers themselves where a helper can carry the
# construct; their remaining clauses go through LocalClauses, which applies the guard's criterion clause by clause.
FOLLOWS_HELPERS = {"C19-R3": "a section may be decoded by a helper that parse() hands the header count to: the helper's loop, its reader call, the cursor it threads and returns, and what parse() does with the result are judged "
                             "like a loop written in parse() (header-size / header-count clauses: LocalClauses)",
                   "C19-R6": "a record collection may be folded into the minimum by a helper that takes the collection and the accumulator by reference: the helper's loop is judged like a loop written in calculateResultTtl and its "
                             "accumulator is mapped back to the caller's variable (get/set/put/negative-TTL clauses: LocalClauses)"}
NOT_DECIDED = ["exactness of decoded records for all layouts", "the wall clock (steady_clock monotonicity assumed)", "amplification by reserve(count) (bounded by 4 x 65535 records)",
               "names that run to the end of the message without terminator are returned, not rejected"]


def dm(ctx, name, nparams=None):
    fs = [f for f in ctx.fb().funcs(DM + "::" + name, DMF) if f.ok and (nparams is None or len(f.params) == nparams)]
    if len(fs) != 1:
        raise AnalysisBroken("DnsMessage::%s: %d definitions" % (name, len(fs)))
    return fs[0]


# ------------------------------------------------------------------ shape-neutral helpers
# (what a behaviour-preserving refactoring may change without changing what a rule sees: a helper between caller and construct,
#  an overload that only forwards, a named const local, the spelling of a set-membership test)

def _nt(t):
    """type text without cv-qualifiers, references and blanks (agreement of an argument with a parameter)"""
    return (t or "").replace("const ", "").replace(" const", "").replace("&", "").replace(" ", "")


def resolve_callees(fb, n):
    """the definitions a direct call can run: same qualified name and arity; among several (overloads, instantiations of one
    template) those whose parameter types agree with the argument types"""
    args = n.get("args", [])
    cands = [g for g in fb.by_name.get(n.get("callee") or "", []) if g.ok and len(g.params) == len(args)]
    if len(cands) > 1:
        exact = [g for g in cands if all(_nt(p.get("t")) == _nt((strip_casts(a) or {}).get("t")) for p, a in zip(g.params, args))]
        if exact:
            cands = exact
    return cands


def forward_target(fb, f):
    """f hands its own parameters, each in its position, to ONE other definition and returns what that returns, doing nothing else
    (an overload kept for its shorter signature; extra arguments are fresh locals): what the rules have to say about f they say
    about the target.  None when f is not such a forwarder."""
    if any(b.cond is not None for b in f.blocks.values()):
        return None
    calls = [e for e in f.stmts() if e.node.get("k") in ("call", "mcall")]
    if len(calls) != 1 or len(common.returns(f)) > 1:
        return None
    c = calls[0].node
    for e in f.stmts():
        if "root" not in e.raw:
            continue
        n = e.node
        if n.get("id") == c.get("id"):
            continue
        if n.get("k") == "ret" and (strip_casts(n.get("v") or {}) or {}).get("id") == c.get("id"):
            continue
        if n.get("k") == "decl" and all(v.get("init") is None or const_value(strip_casts(v["init"])) is not None for v in n["vars"]):
            continue
        return None
    args = [strip_casts(a) or {} for a in c.get("args", [])]
    if len(args) < len(f.params) or any(not (a.get("k") == "var" and a.get("parm") == i) for i, a in enumerate(args[:len(f.params)])):
        return None
    if any(a.get("k") != "var" or a.get("parm") is not None for a in args[len(f.params):]):
        return None
    tg = [g for g in resolve_callees(fb, c) if g is not f]
    return tg[0] if len(tg) == 1 else None


_ARITH = ("bool", "char", "signed char", "unsigned char", "short", "unsigned short", "int", "unsigned int", "unsigned", "long", "unsigned long", "long long", "unsigned long long")
_OUT_PARAM_APIS = ("swap", "exchange", "from_chars", "getline", "read", "tie", "get", "operator>>")


def const_inliner(f, fb=None):
    """node -> node with every single-assignment local of value type replaced by its initialiser (repeatedly), provided the
    initialiser reads nothing but constants and other such locals: `const std::size_t n = length + 1; off += n` is `off += length + 1`.
    Single-assignment: declared `const`, or an arithmetic local that is never assigned, incremented, has its address taken or is
    handed to a non-const reference parameter (parameters of iora's own functions are looked up; of foreign ones only the known
    out-parameter APIs count)"""
    table = {}
    decls = [v for e in f.stmts() if e.node.get("k") == "decl" for v in e.node["vars"]]
    touched = set()
    for e in f.stmts():
        n = e.node
        k = n.get("k")
        if k in ("bin", "opcall") and is_assign(n):
            touched.add((strip_casts(_ap(n)[0]) or {}).get("d"))
        elif k == "un" and n.get("op") in ("++", "--", "post++", "post--", "pre++", "pre--", "&"):
            touched.add((strip_casts(n.get("v")) or {}).get("d"))
        elif k in ("call", "mcall", "opcall", "ctor"):
            cs = [g for g in (fb.by_name.get(n.get("callee") or "", []) if fb is not None else []) if len(g.params) == len(n.get("args", []))]
            for i, a in enumerate(n.get("args", [])):
                a = strip_casts(a) or {}
                if a.get("k") != "var":
                    continue
                if cs:
                    if any("&" in (g.params[i].get("t") or "") and not (g.params[i].get("t") or "").startswith("const ") for g in cs):
                        touched.add(a.get("d"))
                elif last(n.get("callee") or "") in _OUT_PARAM_APIS or not (n.get("callee") or "").startswith("std::"):
                    touched.add(a.get("d"))       # a callee that cannot be looked up and is not a plain std:: function: assume it writes
    in_lambdas = {x["n"] for (ln, lf) in (f.lambdas or []) for x in lf.nodes.values() if x.get("k") == "var"}      # captured, possibly by reference: not followed

    def single(v):
        t = (v.get("t") or "")
        if "&" in t or "*" in t or not isinstance(v.get("init"), dict) or v.get("d") is None:
            return False
        return t.startswith("const ") or (t in _ARITH and v["d"] not in touched and v["n"] not in in_lambdas)
    cands = {v["d"]: v for v in decls if single(v)}
    changed = True
    while changed:
        changed = False
        for d_, v in cands.items():
            if d_ in table:
                continue
            init = v["init"]
            if any(x.get("k") in ("call", "mcall", "opcall", "ctor", "lambda", "member", "idx", "gvar") and const_value(x) is None for x in walk(init)):
                continue
            if all(x.get("d") in cands for x in walk(init) if x.get("k") == "var"):
                table[d_] = init
                changed = True
    if not table:
        return lambda n: n
    from ..facts import _subst_vars

    def inl(n):
        for _ in range(6):
            m = _subst_vars(n, table)
            if m is n:
                break
            n = m
        return n
    return inl


def membership(c):
    """a set-membership test in any of its spellings → (container key, element key, truth value of `c` when the element IS in the
    container): `S.find(k) != S.end()`, `S.find(k) == S.end()`, `S.count(k) != 0`, `> 0`, `>= 1`, `== 0`, `< 1`, a bare
    `S.count(k)` / `S.contains(k)`, `S.insert(k).second`, each possibly negated; None for anything else"""
    c = strip_casts(c)
    if c is None:
        return None
    if c.get("k") == "un" and c.get("op") == "!":
        m = membership(c.get("v"))
        return (m[0], m[1], not m[2]) if m else None

    def probe(x, names):
        x = strip_casts(x)
        if x is not None and x.get("k") == "mcall" and last(x.get("callee", "")) in names:
            a = [y for y in x.get("args", []) if not y.get("def")]
            if len(a) == 1 and key_of(x.get("obj")) and key_of(strip_views(a[0])):
                return key_of(x.get("obj")), key_of(strip_views(a[0]))
        return None
    p = probe(c, ("count", "contains"))
    if p:
        return p[0], p[1], True
    if c.get("k") == "member" and last(c.get("n", "")) == "second" and probe(c.get("b"), ("insert", "emplace")):
        # `S.insert(k).second` is true exactly when k was NOT in S (test and insert in one call)
        p = probe(c.get("b"), ("insert", "emplace"))
        return p[0], p[1], False
    ev = {"==": lambda a, b: a == b, "!=": lambda a, b: a != b, "<": lambda a, b: a < b, "<=": lambda a, b: a <= b, ">": lambda a, b: a > b, ">=": lambda a, b: a >= b}
    for (op, l, r) in common.cmp_both(c):
        p = probe(l, ("find",))
        rr = strip_casts(r) or {}
        if p and rr.get("k") == "mcall" and last(rr.get("callee", "")) in ("end", "cend") and key_of(rr.get("obj")) == p[0] and op in ("==", "!="):
            return p[0], p[1], op == "!="
        p = probe(l, ("count",))
        cv = const_value(r)
        if p and cv is not None and not isinstance(cv, bool):
            # count(k) is 0 for an absent element and >= 1 for a present one: the test must separate exactly those
            t0, t1, t2 = ev[op](0, cv), ev[op](1, cv), ev[op](2, cv)
            if t1 == t2 and t0 != t1:
                return p[0], p[1], t1
    return None


class LocalClauses:
    """r.expect for the clauses that do NOT look into helpers, inside a rule that is listed in FOLLOWS_HELPERS because its other
    clauses do.  The inventory guard (report.py) no longer downgrades anything such a rule reports, so these clauses apply the
    guard's own criterion themselves: a failure inside a function that is new, or that directly calls a new function (one not in
    iora_sa/inventory.json), is a refusal — the construct may simply have moved into the helper — not a verdict.  With the guard
    switched off (IORA_VERIF_NO_INVENTORY) nothing is tainted and this is r.expect."""

    def __init__(self, ctx, r):
        from ..report import functions_through_unknown_helpers
        self.r = r
        self.unknown, self.tainted = functions_through_unknown_helpers(ctx.fb(), ctx.cg())

    def expect(self, cond, fn, where, construct, msg, okdesc=None, witness=None):
        base = (getattr(fn, "name", fn) or "").split("::$lambda")[0]
        if cond or base not in self.tainted:
            return self.r.expect(cond, fn, where, construct, msg, okdesc=okdesc, witness=witness)
        self.r.obligations += 1
        m = ("%s: `%s` [%s] is reported by a clause that does not follow calls, in code that now runs through function(s) the rule tables have never seen (not in iora_sa/inventory.json): "
             "this is not a verdict — read the new helper(s) against the rule and re-freeze the inventory (tools/mkinventory.py). What the clause saw: %s" % (self.r.id, short(base), construct, msg[:160]))
        if m not in self.r.check.broken:
            self.r.check.broken.append(m)
        return False


def decode_window(f, cur, sizes, bufnames, floor_from_facts=True, fb=None):
    """Window over one (cursor, limit) pair of a DnsMessage decode function.
    bufnames: textual forms of the buffer (`data`, `rdata`, `rr.rdata`, `rr.rdata.data()`)"""
    is_buf = lambda n: show(strip_casts(n)) in bufnames
    lam_names = {ln.get("n") for (ln, lf) in f.lambdas} if f.lambdas else set()
    inl = const_inliner(f, fb)

    def strip_cur(fm):
        return form(fm[0], [s for s in fm[1] if s != cur])
    # a const pointer local that names a position in the buffer (`const uint8_t *const fields = data + offset`) stands for that
    # position — as long as the cursor it was computed from is never written in the function (otherwise it would go stale)
    alias = {}
    cur_written = any((e.node.get("k") in ("bin", "opcall") and is_assign(e.node) and key_of(_ap(e.node)[0]) == cur) or (e.node.get("k") == "un" and "++" in e.node.get("op", "") and key_of(e.node.get("v")) == cur) for e in f.stmts())
    if not cur_written:
        for e in f.stmts():
            for v in (e.node.get("vars", []) if e.node.get("k") == "decl" else []):
                if (v.get("t") or "").rstrip().endswith("*const") and isinstance(v.get("init"), dict):
                    fm0 = lin(v["init"])
                    if fm0 is not None and len([s_ for s_ in fm0[1] if s_ in bufnames]) == 1 and list(fm0[1]).count(cur) == 1:
                        alias[v["n"]] = form(fm0[0], [s_ for s_ in fm0[1] if s_ not in bufnames])

    def edge(c, truth):
        return guard_ops(c, truth, cur, sizes)

    def ptr_form(n):
        """linear form of a pointer expression `buf + …` → offset part, or None"""
        fm = lin(n)
        if fm is None:
            return None
        bs = [s for s in fm[1] if s in bufnames]
        if len(bs) != 1:
            return None
        return form(fm[0], [s for s in fm[1] if s not in bufnames])

    def elem(e):
        if e.kind != "stmt":
            return None
        n = e.node
        k = n.get("k")
        ops = []
        if k in ("call", "mcall") and last(n.get("callee", "")) == "checkBounds" and len(n.get("args", [])) == 3:
            a, need, tot = n["args"]
            fa, fn_ = lin(inl(a)), lin(inl(need))
            if fa is not None and fn_ is not None and list(fa[1]).count(cur) == 1 and show(strip_casts(tot)) in {s.replace(".size()", "") for s in sizes} | sizes:
                rest = strip_cur(fa)
                ops.append(("atleast", form(rest[0] + fn_[0], list(rest[1]) + list(fn_[1]))))
        elif k in ("call", "mcall") and last(n.get("callee", "")) in ("readUint16", "readUint32") and len(n.get("args", [])) == 2 and (is_buf(n["args"][0]) or show(strip_casts(n["args"][0])) in alias):
            w = 2 if last(n["callee"]).endswith("16") else 4
            fa = lin(inl(n["args"][1]))
            if not is_buf(n["args"][0]) and fa is not None:
                af = alias[show(strip_casts(n["args"][0]))]      # `p = buf + cur + c`: p[k] is buf[cur + c + k]
                fa = form(fa[0] + af[0], list(fa[1]) + list(af[1]))
            if fa is not None and list(fa[1]).count(cur) == 1:
                rest = strip_cur(fa)
                ops.append(("need", form(rest[0] + w, rest[1]), "%s(%s, %s)" % (last(n["callee"]), show(n["args"][0]), show(n["args"][1]))))
            elif fa is not None and not fa[1] and cur == "0":
                ops.append(("need", form(fa[0] + w), "%s(%s, %s)" % (last(n["callee"]), show(n["args"][0]), show(n["args"][1]))))
            elif fa is None or cur in (fa[1] if fa else ()):
                ops.append(("need", TOP, "%s(%s, %s)" % (last(n["callee"]), show(n["args"][0]), show(n["args"][1]))))
        elif (k == "idx" or (k == "opcall" and n.get("op") == "[]")) and is_buf(n.get("b") or n.get("base") or (n.get("args") or [{}])[0]):
            ie = n.get("i") or n.get("index") or (n.get("args") or [None, None])[1]
            ies = strip_casts(ie)
            if ies.get("k") == "un" and ies.get("op") == "post++" and key_of(ies["v"]) == cur:
                return None
            fa = lin(ie)
            if fa is not None and list(fa[1]).count(cur) == 1:
                rest = strip_cur(fa)
                ops.append(("need", form(rest[0] + 1, rest[1]), "%s[%s]" % (show(n.get("b") or n.get("base") or n["args"][0]), show(ie))))
        elif k == "mcall" and last(n.get("callee", "")) in ("assign", "append") and n.get("args"):
            a = [x for x in n["args"] if not x.get("def")]
            p0 = ptr_form(strip_views(a[0])) if a else None
            if p0 is not None and cur in p0[1] and len(a) == 2:
                p1 = ptr_form(strip_views(a[1]))
                if p1 is not None and cur in p1[1]:
                    # (first, last) pointer range
                    rest = strip_cur(p1)
                    ops.append(("need", rest, "%s(%s, %s)" % (last(n["callee"]), show(a[0])[:30], show(a[1])[:36])))
                else:
                    ln = lin(inl(a[1]))
                    rest = strip_cur(p0)
                    ops.append(("need", form(rest[0] + ln[0], list(rest[1]) + list(ln[1])) if ln is not None else TOP, "%s(%s, %s)" % (last(n["callee"]), show(a[0])[:36], show(a[1]))))
        elif k == "ctor" and n.get("cls") == "std::basic_string" and len([x for x in n.get("args", []) if not x.get("def")]) == 2:
            a = [x for x in n["args"] if not x.get("def")]
            p0 = ptr_form(strip_views(a[0]))
            if p0 is not None and cur in p0[1]:
                ln = lin(a[1])
                rest = strip_cur(p0)
                ops.append(("need", form(rest[0] + ln[0], list(rest[1]) + list(ln[1])) if ln is not None else TOP, "std::string(%s, %s)" % (show(a[0])[:36], show(a[1]))))
        elif k == "un" and n.get("op") == "post++" and key_of(n["v"]) == cur:
            par = f.nodes.get(f.parent.get(n.get("id")))
            while par is not None and par.get("k") == "cast":
                par = f.nodes.get(f.parent.get(par.get("id")))
            if par is not None and (par.get("k") == "idx" or (par.get("k") == "opcall" and par.get("op") == "[]")):
                ops.append(("need", form(1), "%s[%s++]" % (show(par.get("b") or par.get("base") or par["args"][0]), cur)))
            ops.append(("adv", form(1)))
        elif k == "un" and n.get("op") in ("++", "pre++") and key_of(n["v"]) == cur:
            ops.append(("adv", form(1)))
        elif k == "bin" and n.get("op") == "+=" and key_of(n["lhs"]) == cur:
            fm = lin(inl(n["rhs"]))
            ops.append(("adv", fm) if fm is not None else ("reset", None))
        elif k in ("bin", "opcall") and is_assign(n) and key_of(_ap(n)[0]) == cur:
            ops.append(("reset", None))
        elif k in ("bin", "opcall") and is_assign(n) and key_of(_ap(n)[0]):
            ops.append(("kill", key_of(_ap(n)[0])))
        elif k == "decl":
            for v in n["vars"]:
                if v["n"] == cur:
                    # cursor starts at 0: the window is what the dominating size tests established
                    if const_value(strip_casts(v.get("init") or {})) == 0:
                        fl = max([size_floor(f, e, s_.replace(".size()", "")) for s_ in sizes] + [0])
                        ops.append(("reset", form(fl)))
                    else:
                        ops.append(("reset", None))
                else:
                    ops.append(("kill", v["n"]))
        elif k == "opcall" and n.get("op") == "()" and key_of(n["args"][0]) in lam_names:
            ops.append(("reset", None))      # a local lambda that captures the cursor by reference
        return ops or None
    return Window(f, edge, elem, init=None)


def const_reads(f, bufs):
    """(Elem, buffer text, highest index read) for constant-index reads / fixed-offset big-endian reads of RDATA"""
    out = []
    for e in f.stmts():
        n = e.node
        if (n.get("k") == "idx" or (n.get("k") == "opcall" and n.get("op") == "[]")):
            b = n.get("b") or n.get("base") or (n.get("args") or [{}])[0]
            ie = n.get("i") or n.get("index") or (n.get("args") or [None, None])[1]
            if show(strip_casts(b)) in bufs and const_value(strip_casts(ie)) is not None:
                out.append((e, show(strip_casts(b)), const_value(strip_casts(ie)), "%s[%d]" % (show(strip_casts(b)), const_value(strip_casts(ie)))))
        if n.get("k") in ("call", "mcall") and last(n.get("callee", "")) in ("readUint16", "readUint32") and len(n.get("args", [])) == 2:
            b = show(strip_casts(n["args"][0])).replace(".data()", "")
            k = const_value(strip_casts(n["args"][1]))
            if b in bufs and k is not None:
                w = 2 if last(n["callee"]).endswith("16") else 4
                out.append((e, b, k + w - 1, "%s(%s, %d)" % (last(n["callee"]), show(n["args"][0]), k)))
        if n.get("k") == "call" and last(n.get("callee", "")) == "memcpy" and len(n.get("args", [])) == 3:
            b = show(strip_casts(strip_views(n["args"][1]))).replace(".data()", "")
            k = const_value(strip_casts(n["args"][2]))
            if b in bufs and k is not None:
                out.append((e, b, k - 1, "memcpy(…, %s, %d)" % (show(n["args"][1]), k)))
    return out


def size_floor(f, e, buf):
    """largest L with `buf.size() >= L` implied by the branches dominating e"""
    L = 0
    for (c, truth) in dominating_facts(f, e):
        cp = common.cmp_parts(strip_casts(c))
        if cp and show(strip_casts(cp[1])) in (buf + ".size()", buf + ".length()") and const_value(cp[2]) is not None:
            op = cp[0] if truth else {"<": ">=", ">=": "<", ">": "<=", "<=": ">", "==": "!=", "!=": "=="}[cp[0]]
            cv = const_value(cp[2])
            if op == ">=":
                L = max(L, cv)
            elif op == ">":
                L = max(L, cv + 1)
            elif op == "==":
                L = max(L, cv)
        t = show(strip_casts(c))
        if t == buf + ".empty()" and truth is False:
            L = max(L, 1)
    return L


def r1(ctx, r):
    fb = ctx.fb()
    # checkBounds: the one non-wrapping test
    cb = dm(ctx, "checkBounds")
    tb = [b for b in cb.blocks.values() if b.cond is not None and common.cmp_parts(b.cond)]
    r.instance()
    ok = len(tb) == 1
    if ok:
        # the test compares offset + needed with total; whichever operator and operand order it uses, the edge on which
        # `offset + needed > total` holds must end in the throw and the other edge must not
        co = common.cmp_oriented(tb[0].cond, lambda x: key_of(x) == "total")
        fl = lin(co[1]) if co else None
        bad = {">": 0, "<=": 1}.get(co[0]) if co else None          # successor index taken when the range does NOT fit
        throws = lambda si: any(x.kind == "stmt" and x.node.get("k") == "throw" for x in _reach_until_ret(cb, tb[0].succs[si]))
        ok = bad is not None and len(tb[0].succs) == 2 and fl is not None and sorted(fl[1]) == ["needed", "offset"] and fl[0] == 0 and throws(bad) and not throws(1 - bad)
        ok = ok and "size_t" in cb.params[1]["t"] or ok and "long" in cb.params[1]["t"]
    r.expect(ok, cb, None, "checkBounds", "DnsMessage::checkBounds is not `offset + needed > total → throw`", okdesc="checkBounds: offset + needed > total → throw DnsParseException")
    # every caller passes a 16-bit-bounded `needed` (constants, uint8/uint16 values): offset + needed cannot wrap
    n16 = 0
    for f in fb.in_file(DMF):
        if not f.ok:
            continue
        for e in f.stmts():
            if e.node.get("k") in ("call", "mcall") and last(e.node.get("callee", "")) == "checkBounds":
                need = strip_casts(e.node["args"][1])
                t = (need.get("t") or "")
                n16 += 1
                r.instance()
                r.expect(const_value(need) is not None or "short" in t or "char" in t or "uint16" in t or "uint8" in t, f, e, "checkBounds needed width", "%s passes `%s` (type %s) as `needed`: with a value near 2^64 the sum offset + needed wraps and the check passes"
                         % (last(f.name), show(need), t), okdesc="%s: needed is a constant / 8-16 bit value" % last(f.name))
    if n16 < 6:
        raise AnalysisBroken("only %d checkBounds calls (floor 6)" % n16)
    specs = [
        ("parseHeader", None, "offset", {"size"}, {"data"}),
        ("parseQuestion", None, "offset", {"size"}, {"data"}),
        ("parseResourceRecord", 4, "offset", {"size"}, {"data"}),
        ("parseResourceRecord", 5, "offset", {"size"}, {"data"}),
        ("decodeNameWithLoopDetection", None, "offset", {"size"}, {"data"}),
        ("decodeNameFromRdata", None, "rdataOffset", {"rdataSize"}, {"rdata"}),
        ("decodeNameFromRdata", None, "consumedInRdata", {"rdataSize"}, {"rdata"}),
        ("parseNaptrRecord", None, "offset", {"rr.rdata.size()"}, {"rr.rdata", "rr.rdata.data()"}),
        ("parseTxtRecord", None, "offset", {"rr.rdata.size()"}, {"rr.rdata", "rr.rdata.data()"}),
        ("parseSoaRecord", None, "offset", {"rr.rdata.size()"}, {"rr.rdata", "rr.rdata.data()"}),
        ("validateRdataSecurity", None, "i", {"rr.rdata.size()"}, {"rr.rdata"}),
    ]
    total = 0
    for (nm, npar, cur, sizes, bufs) in specs:
        f = dm(ctx, nm, npar)
        tg = forward_target(fb, f)
        if tg is not None:
            # an overload that only forwards its parameters performs the reads of its target: judged there, under the target's
            # own row of the table (a target the table does not list cannot be judged)
            row = [s_ for s_ in specs if s_[0] == last(tg.name) and tg.cls == DM and (s_[1] is None or s_[1] == len(tg.params)) and s_[2] == cur]
            if not row:
                raise AnalysisBroken("DnsMessage::%s/%d forwards to %s, for which the window table has no (cursor, limit) row" % (nm, len(f.params), short(tg.name)))
            (_, _, cur, sizes, bufs), f = row[0], tg
        targets = [f] + [lf for (ln, lf) in f.lambdas if lf.ok]
        for g in targets:
            w = decode_window(g, cur, sizes, bufs, fb=fb)
            total += len(w.checked) + len(w.violations)
            r.instance(len(w.checked) + len(w.violations))
            for (e, what) in w.checked:
                r.ok("%s: %s inside the window (%s/%s)" % (last(f.name), what, cur, sorted(sizes)[0]))
            for (e, need, have, what) in w.violations:
                # a read inside a range-for over a fixed list of fields consumes a window that was established ONCE in front of the
                # loop; whether it suffices depends on the trip count, which the window domain does not carry: not a verdict
                inloop = [b for (b, rng_, el_) in _range_loops(g) if search(g, ("block", b.succs[0]), lambda x, e=e: x is e, stop=lambda x, b=b: x.block is b, eh=False) is not None]
                if inloop and not any(x.kind == "stmt" and x.node.get("k") in ("call", "mcall") and last(x.node.get("callee", "")) == "checkBounds" and search(g, ("block", inloop[0].succs[0]), lambda y, x=x: y is x, stop=lambda y, b=inloop[0]: y.block is b, eh=False) is not None for x in g.stmts()):
                    raise AnalysisBroken("%s performs `%s` inside a range-for whose window was established in front of the loop: the trip count is outside what the window analysis tracks" % (last(f.name), what))
                r.fail(f, e, "outside window: %s" % what.split("(")[0] + ("(" + what.split("(", 1)[1] if "(" in what else ""), "%s performs `%s`, which needs %s byte(s) from the cursor `%s`, but only %s established since the cursor last moved: "
                       "a truncated or crafted message makes the decoder read outside the buffer" % (last(f.name) + (" (lambda)" if g is not f else ""), what, show_form(need) if not is_top(need) else "a bound the analysis cannot establish", cur, show_form(have)))
    if total < 36:
        raise AnalysisBroken("only %d windowed reads recognised in the DNS decoders (floor 36)" % total)
    # constant-index / fixed-offset reads of RDATA behind a size test
    nconst = 0
    for nm in ("parseARecord", "parseAAAARecord", "parseSrvRecord", "parseMxRecord", "validateRdataSecurity", "parseNaptrRecord"):
        f = dm(ctx, nm)
        for (e, buf, hi, what) in const_reads(f, {"rr.rdata"}):
            nconst += 1
            r.instance()
            L = size_floor(f, e, buf)
            r.expect(hi + 1 <= L, f, e, "outside RDATA: %s" % what, "%s performs `%s` (needs %d bytes of RDATA) but only rdata.size() >= %d is established on that path" % (last(f.name), what, hi + 1, L),
                     okdesc="%s: %s behind rdata.size() >= %d" % (last(f.name), what, L))
    # indexed reads with a non-constant index in parseAAAARecord's fallback: i*2+1 < 16 by the loop bound
    f = dm(ctx, "parseAAAARecord")
    lp = [b for b in f.blocks.values() if b.cond is not None and common.cmp_parts(b.cond) and common.cmp_parts(b.cond)[0] == "<" and const_value(common.cmp_parts(b.cond)[2]) is not None and key_of(common.cmp_parts(b.cond)[1]) == "i"]
    r.instance()
    r.expect(len(lp) == 1 and const_value(common.cmp_parts(lp[0].cond)[2]) * 2 <= 16 and size_floor(f, lp[0].elems[0], "rr.rdata") >= 16, f, None, "AAAA fallback index", "the AAAA fallback formatter indexes beyond 16 bytes", okdesc="AAAA fallback: i < 8, index i*2+1 < 16")
    if nconst < 14:
        raise AnalysisBroken("only %d constant-index RDATA reads (floor 14)" % nconst)
    # TCP length prefix in the transport: buffer[0], buffer[1] behind size() >= 2; message copy behind size() >= 2 + len
    ht = [g for g in fb.funcs(DT + "::handleTcpData") if g.ok]
    if len(ht) != 1:
        raise AnalysisBroken("DnsTransport::handleTcpData: %d definitions" % len(ht))
    ht = ht[0]
    rd = [(e, k) for (e, b, k, w) in const_reads(ht, {"buffer"})]
    r.instance()
    r.expect(len(rd) == 2 and all(size_floor(ht, e, "buffer") >= 2 for e, k in rd), ht, None, "TCP length prefix", "the TCP length prefix is read without `buffer.size() >= 2`", okdesc="TCP prefix behind buffer.size() >= 2")
    cpb = [b for b in ht.blocks.values() if b.cond is not None and common.cmp_parts(b.cond) and common.cmp_parts(b.cond)[0] == "<" and "buffer.size()" in show(common.cmp_parts(b.cond)[1]) and "messageLength" in show(common.cmp_parts(b.cond)[2])]
    md = [e for e in ht.stmts() if e.node.get("k") == "decl" and any(v["n"] == "messageData" for v in e.node["vars"])]
    r.instance()
    r.expect(len(cpb) == 1 and len(md) == 1 and dominated_by_edge(ht, md[0], cpb[0], 1, eh=False), ht, None, "TCP message copy", "the TCP message is copied out without `buffer.size() >= 2 + messageLength`", okdesc="TCP message copied behind the completeness test")
    capb = [b for b in ht.blocks.values() if b.cond is not None and "maxTcpBufferSize" in show(b.cond) and "buffer.size()" in show(b.cond)]
    ins = [e for e in ht.stmts() if e.node.get("k") == "mcall" and last(e.node.get("callee", "")) == "insert" and key_of(e.node.get("obj")) == "buffer"]
    r.instance()
    r.expect(len(capb) == 1 and len(ins) == 1 and dominated_by_edge(ht, ins[0], capb[0], 1, eh=False), ht, None, "TCP buffer cap", "the TCP reassembly buffer grows without the maxTcpBufferSize test", okdesc="TCP buffer capped")


def r2(ctx, r):
    f = dm(ctx, "decodeNameWithLoopDetection")
    inl = const_inliner(f, ctx.fb())
    # the jump: the cursor is set to a plain 16-bit local (the decoded pointer) — every other cursor update is relative to the cursor
    jump = [e for e in f.stmts() if asg(e.node) and key_of(asg(e.node)[0]) == "offset" and (strip_casts(asg(e.node)[1]) or {}).get("k") == "var" and key_of(asg(e.node)[1]) != "offset"]
    ptr = key_of(asg(jump[0].node)[1]) if len(jump) == 1 else "pointer"
    def range_test(b):
        co = common.cmp_oriented(b.cond, lambda x: key_of(x) == "size") if b.cond is not None else None
        return co if co and key_of(co[1]) == ptr else None
    rng = [b for b in f.blocks.values() if range_test(b)]
    # the visited set is whatever container the pointer is looked up in and inserted into (find/end, count, contains: one test)
    vis = [b for b in f.blocks.values() if b.cond is not None and len(b.succs) == 2 and (lambda m: m is not None and m[1] == ptr)(membership(b.cond))]
    ins = [e for e in f.stmts() if e.node.get("k") == "mcall" and last(e.node.get("callee", "")) in ("insert", "emplace") and e.node.get("args") and key_of(strip_views(e.node["args"][0])) == ptr]
    r.instance()
    if len(jump) == 1 and not rng:
        # no explicit comparison: the range may be established through the throwing helper checkBounds(off, n, total), which
        # guarantees off + n <= total.  A valid pointer needs pointer + 1 <= size.
        cbs = [e for e in f.stmts() if e.node.get("k") in ("call", "mcall") and last(e.node.get("callee", "")) == "checkBounds" and elem_dominates(f, e, jump[0], eh=False)
               and any(key_of(strip_casts(a)) == ptr for a in e.node.get("args", []))]
        if not cbs:
            r.fail(f, jump[0], "pointer range", "the jump to a compression pointer is behind no range test at all: an out-of-range pointer is followed")
        for e in cbs:
            a = [strip_casts(x) for x in e.node["args"]]
            others = [const_value(x) for x in a[:2] if key_of(x) != ptr]
            enough = len(a) >= 3 and key_of(a[2]) == "size" and len(others) == 1 and others[0] is not None and others[0] >= 1
            r.expect(enough, f, e, "pointer range", "the compression pointer is validated with `%s`, which guarantees only %s <= size: a pointer equal to the message length (one past the last byte) is accepted — the name silently "
                     "ends there and the message decodes — where `pointer >= size` must be an error" % (show(e.node)[:50], " + ".join(show(x) for x in a[:2])), okdesc="pointer + n <= size with n >= 1")
        rng = None
    ok = len(jump) == 1 and (rng is None or len(rng) == 1) and len(vis) == 1 and len(ins) == 1
    if ok:
        if rng is not None:
            op = range_test(rng[0])[0]
            ok = op in (">=",) and dominated_by_edge(f, jump[0], rng[0], 1, eh=False)
            r.expect(ok, f, jump[0], "pointer range", "the jump to a compression pointer is not behind `pointer >= size → throw`: an out-of-range pointer is followed", okdesc="jump behind pointer < size")
        r.instance()
        vset, _, vpol = membership(vis[0].cond)
        seen_edge = 0 if vpol else 1          # the successor taken when the pointer IS in the set
        ok = dominated_by_edge(f, jump[0], vis[0], 1 - seen_edge, eh=False) and elem_dominates(f, ins[0], jump[0], eh=False) and key_of(ins[0].node.get("obj")) == vset and \
            any(x.kind == "stmt" and x.node.get("k") == "throw" for x in _reach_until_ret(f, vis[0].succs[seen_edge]))
        r.expect(ok, f, jump[0], "pointer loop", "a compression pointer is followed without the visited-set test and insert: a pointer loop never terminates", okdesc="jump behind not-visited test; target recorded first")
    else:
        if len(jump) == 1 and not vis and any("root" not in e.raw for e in ins):
            # `if (!visited.insert(p).second) throw`: test and insert in one call — sound, but not a shape this rule can judge
            raise AnalysisBroken("decodeNameWithLoopDetection: the result of the visited-set insert is used (test and insert in one call) — a shape this rule does not know")
        if len(jump) == 1 and (len(vis) == 0 or len(ins) == 0):
            r.fail(f, jump[0], "pointer loop", "a compression pointer is followed without the visited-set %s: a pointer loop never terminates" % ("test" if not vis else "insert"))
        elif len(jump) == 1 and rng is not None and len(rng) == 0:
            r.fail(f, jump[0], "pointer range", "the jump to a compression pointer is behind no range test")
        else:
            raise AnalysisBroken("decodeNameWithLoopDetection: expected one jump, one range test, one visited test and one insert (found %d/%s/%d/%d) — a shape this rule does not know" % (len(jump), len(rng) if rng is not None else "-", len(vis), len(ins)))
    # the position at which the caller resumes is fixed at the FIRST pointer of the name
    rv = [e for e in common.returns(f)]
    res = None
    for e in rv:
        v = strip_casts(e.node.get("v") or {})
        if v.get("k") == "cond" and isinstance(v.get("c"), dict) and isinstance(v.get("t"), dict):
            cvar, tvar = strip_casts(v["c"]), strip_casts(v["t"])
            if cvar.get("k") == "var" and tvar.get("k") == "var":
                res = [cvar["n"], tvar["n"]]
    r.instance()
    if res is None:
        raise AnalysisBroken("decodeNameWithLoopDetection: return is not `jumped ? resume : offset`")
    flag, resume = res[0], res[1]
    vocab = Vocab(["j"])

    def leaf_j(n):
        return A("j") if n.get("k") == "var" and n["n"] == flag else None

    def eff_j(e):
        if e.kind != "stmt":
            return None
        a = asg(e.node)
        if a and key_of(a[0]) == flag:
            cv = const_value(strip_casts(a[1]))
            return [("set", "j", bool(cv))] if cv is not None else [("havoc", "j")]
        if e.node.get("k") == "decl":
            for v in e.node["vars"]:
                if v["n"] == flag:
                    return [("set", "j", bool(const_value(strip_casts(v.get("init") or {}))))]
        return None
    paj = PredAbs(f, vocab, leaf_j, eff_j, eh=False)
    ws = [e for e in f.stmts() if asg(e.node) and key_of(asg(e.node)[0]) == resume]
    sets_ = [e for e in f.stmts() if asg(e.node) and key_of(asg(e.node)[0]) == flag and const_value(strip_casts(asg(e.node)[1])) == 1]
    okr = len(ws) >= 1 and all(paj.entails(e, Not(A("j"))) for e in ws) and all(lin(asg(e.node)[1]) == (2, ("offset",)) for e in ws) and len(sets_) >= 1 and all(any(w.block is s_.block for w in ws) for s_ in sets_)
    r.expect(okr, f, ws[0] if ws else None, "resume position overwritten", "`%s` (the position after the compressed name, returned to the caller) is assigned on a path where a pointer was already followed, or is not `offset + 2` "
             "of the first pointer: with chained pointers the caller resumes behind the LAST pointer followed, somewhere else in the message, and reads TYPE/CLASS/TTL from the wrong place" % resume,
             okdesc="resume position = offset + 2 at the first pointer only")
    # the pointer is read behind checkBounds(offset, 2) and masked to 14 bits
    pd = [v for e in f.stmts() if e.node.get("k") == "decl" for v in e.node["vars"] if v["n"] == ptr]
    r.instance()
    r.expect(len(pd) == 1 and "readUint16(data, offset)" in show(pd[0]["init"]) and "&" in show(pd[0]["init"]) and "short" in pd[0]["t"], f, None, "pointer value", "the compression pointer is not the masked 16-bit value at the cursor", okdesc="pointer = readUint16 & mask (16-bit)")
    # label and name limits
    app = [e for e in f.stmts() if e.node.get("k") == "mcall" and last(e.node.get("callee", "")) == "append" and key_of(e.node.get("obj")) == "name"]
    lb = [b for b in f.blocks.values() if b.cond is not None and common.cmp_parts(b.cond) and key_of(common.cmp_parts(b.cond)[1]) == "length" and "DNS_MAX_LABEL_SIZE" in show(common.cmp_parts(b.cond)[2]) or
          (b.cond is not None and common.cmp_parts(b.cond) and key_of(common.cmp_parts(b.cond)[1]) == "length" and const_value(common.cmp_parts(b.cond)[2]) == 63)]
    r.instance()
    r.expect(len(app) == 1 and len(lb) == 1 and common.cmp_parts(lb[0].cond)[0] == ">" and dominated_by_edge(f, app[0], lb[0], 1, eh=False), f, app[0] if app else None, "label limit", "a label is appended without the `length > 63 → throw` test", okdesc="label <= 63 before append")
    def total_test(b):
        """largest totalLength the test lets through: `totalLength + k > L` → L - k"""
        co = common.cmp_oriented(b.cond, lambda x: const_value(x) is not None) if b.cond is not None else None
        if not co or co[0] not in (">", ">="):
            return None
        fm = lin(co[1])
        if fm is None or tuple(fm[1]) != ("totalLength",):
            return None
        return const_value(co[2]) - fm[0] - (1 if co[0] == ">=" else 0)
    tb = [b for b in f.blocks.values() if total_test(b) is not None]
    r.instance()
    ok = len(tb) == 1 and len(app) == 1 and search(f, app[0], lambda x: x is app[0], stop=lambda x: x.block is tb[0], eh=False) is None
    r.expect(ok, f, None, "name limit", "labels can be appended again without passing the total-length test", okdesc="name length tested after every label")
    if ok:
        # RFC 1035: a name is at most 255 octets on the wire, length octets and the root octet included; totalLength counts the
        # labels with their length octets, so it may reach 254
        r.instance()
        mx = total_test(tb[0])
        r.expect(mx == 254, f, None, "decoder name limit value", "the decoder lets a name through while the sum of its labels and length octets is <= %d; RFC 1035 allows 255 wire octets including the root octet, i.e. 254: %s"
                 % (mx, "legal names of %d..253 characters are rejected" % (mx,) if mx < 254 else "over-long names are accepted"), okdesc="decoder: labels + length octets <= 254 (255 with the root)")
    # progress: every cycle moves the cursor
    prog = {e.block.id for e in f.stmts() if (asg(e.node) and key_of(asg(e.node)[0]) == "offset") or (e.node.get("k") == "bin" and e.node.get("op") == "+=" and key_of(e.node["lhs"]) == "offset" and lin(inl(e.node["rhs"])) is not None and lin(inl(e.node["rhs"]))[0] >= 1)
            or (e.node.get("k") == "un" and "++" in e.node.get("op", "") and key_of(e.node["v"]) == "offset")}
    color, cyc = {}, []

    def dfs(b):
        color[b] = 1
        for s in f.blocks[b].succs:
            if s is None or s in prog:
                continue
            if color.get(s) == 1:
                cyc.append((b, s))
            elif s not in color:
                dfs(s)
        color[b] = 2
    for b in f.blocks:
        if b not in color and b not in prog:
            dfs(b)
    r.instance()
    vague = [e for e in f.stmts() if e.node.get("k") == "bin" and e.node.get("op") == "+=" and key_of(e.node["lhs"]) == "offset" and e.block.id not in prog]
    if cyc and vague:
        # the cursor IS advanced on the cycle, by an amount this rule cannot bound from below: not a verdict
        raise AnalysisBroken("decodeNameWithLoopDetection: the cursor advances by `%s`, which the rule cannot show to be >= 1 — a shape it does not know" % show(vague[0].node["rhs"])[:60])
    r.expect(not cyc and len(prog) >= 3, f, None, "name loop progress", "a loop iteration of the name decoder neither moves the cursor nor leaves", okdesc="every iteration moves the cursor (%d sites)" % len(prog))
    # RDATA pointer: range test before decodeName
    g = dm(ctx, "decodeNameFromRdata")
    dn = [e for e in g.stmts() if e.node.get("k") in ("call", "mcall") and last(e.node.get("callee", "")) == "decodeName"]
    r.instance()
    ok = len(dn) == 2
    if ok:
        for e in dn:
            a1 = key_of(strip_views(e.node["args"][1]))
            # `X < messageSize` known: as a true `<` fact or a false `>=` fact, whichever way round the test is written
            inside = False
            for c, t in dominating_facts(g, e):
                co = common.cmp_oriented(c, lambda x: "messageSize" in show(x))
                if co and a1 in show(co[1]) and ((co[0] == "<" and t) or (co[0] == ">=" and not t)):
                    inside = True
            ok = ok and inside
    r.expect(ok, g, None, "RDATA name start", "decodeNameFromRdata starts decoding at a position not tested against the message size", okdesc="both decodeName starts inside the message")


COUNTS = {"qdcount": "parseQuestion", "ancount": "parseResourceRecord", "nscount": "parseResourceRecord", "arcount": "parseResourceRecord"}
HDRF = "iora::network::dns::DnsHeader::"


def _hdr_count(n):
    """the header count an expression IS (casts removed): the member DnsHeader::<count>, whatever object it is read from"""
    n = strip_casts(n)
    if n is not None and n.get("k") == "member" and (n.get("n") or "").startswith(HDRF) and last(n["n"]) in COUNTS:
        return last(n["n"])
    return None


def _count_loops(f):
    """[(loop head, bound operand)] of the loops that run exactly BOUND times: `for (iv = 0; iv < BOUND; …)`, operands either way
    round, `!=` as well; iv a local that starts at 0"""
    out = []
    for b in f.blocks.values():
        if b.cond is None or not b.term or b.term.get("k") not in ("ForStmt", "WhileStmt") or len(b.succs) != 2:
            continue
        for (op, l, rr) in common.cmp_both(b.cond):
            l_ = strip_casts(l) or {}
            if op in ("<", "!=") and l_.get("k") == "var" and l_.get("parm") is None:
                ivd = [v for e in f.stmts() if e.node.get("k") == "decl" for v in e.node["vars"] if v.get("d") == l_.get("d") and v["n"] == l_["n"]]
                if len(ivd) == 1 and const_value(strip_casts(ivd[0].get("init") or {})) == 0:
                    out.append((b, rr))
                    break
    return out


def _loop_step(f, b):
    """one iteration of the loop headed by b: (names of the section readers it calls, variables threaded through them as
    `c = reader(…, c, …)` — the reader's result, the position behind what it consumed, becomes the next start)"""
    body, work, vis = [], [b.succs[0]], set()
    while work:
        x = work.pop()
        if x is None or x == b.id or x in vis:
            continue
        vis.add(x)
        body.extend(f.blocks[x].elems)
        work.extend(f.blocks[x].succs)
    readers = [e for e in body if e.kind == "stmt" and e.node.get("k") in ("call", "mcall") and (e.node.get("callee") or "").startswith(DM + "::") and last(e.node["callee"]) in set(COUNTS.values())]
    ids = {e.node.get("id"): e.node for e in readers}
    thr = []
    for e in body:
        a = asg(e.node) if e.kind == "stmt" else None
        if a and key_of(a[0]) and (strip_casts(a[1]) or {}).get("id") in ids and any(key_of(strip_casts(x)) == key_of(a[0]) for x in ids[strip_casts(a[1])["id"]].get("args", [])):
            thr.append(key_of(a[0]))
    return [last(e.node["callee"]) for e in readers], thr


def r3(ctx, r):
    fb = ctx.fb()
    lr = LocalClauses(ctx, r)
    f = dm(ctx, "parse", 2)
    # A *section step* decodes one section: a loop that runs <count> times and threads the cursor through one reader call per
    # iteration.  It is either written in parse() itself (bound = the header field) or in a helper of the class that parse()
    # hands the header field to (bound = that parameter, never written; the helper threads its own cursor parameter, returns it,
    # and parse() stores the result in the variable it passed — or decodes nothing afterwards).
    steps = {}          # count -> [(reader names, parse()'s cursor variable or None, site element, result stored?)]
    classified = set()  # ids of the DnsHeader::<count> reads accounted for
    for (b, bound) in _count_loops(f):
        cnt = _hdr_count(bound)
        if cnt:
            calls, thr = _loop_step(f, b)
            classified.add(strip_casts(bound).get("id"))
            steps.setdefault(cnt, []).append((calls, thr[0] if len(thr) == 1 else None, b.elems[0] if b.elems else None, True))
    for e in list(f.stmts()):
        n = e.node
        if n.get("k") not in ("call", "mcall") or not (n.get("callee") or "").startswith(DM + "::"):
            continue
        cargs = [(i, _hdr_count(a), strip_casts(a)) for i, a in enumerate(n.get("args", [])) if _hdr_count(a)]
        if not cargs:
            continue
        hs_ = resolve_callees(fb, n)
        if len(hs_) != 1:
            raise AnalysisBroken("DnsMessage::parse hands a header count to %s, which resolves to %d definitions" % (short(n.get("callee")), len(hs_)))
        h = hs_[0]
        for (i, cnt, anode) in cargs:
            for (b, bound) in _count_loops(h):
                bn = strip_casts(bound) or {}
                written = any((asg(x.node) and (strip_casts(asg(x.node)[0]) or {}).get("d") == bn.get("d") and key_of(asg(x.node)[0]) == bn.get("n")) or
                              (x.node.get("k") in ("un", "bin") and x.node.get("op") in ("++", "--", "post++", "post--", "pre++", "pre--", "+=", "-=") and key_of(x.node.get("v") or x.node.get("lhs")) == bn.get("n")) for x in h.stmts())
                if not (bn.get("k") == "var" and bn.get("parm") == i and not written):
                    continue
                calls, thr = _loop_step(h, b)
                cur, stored = None, False
                pk = [j for j, p_ in enumerate(h.params) if len(thr) == 1 and p_.get("n") == thr[0]]
                rets = common.returns(h)
                pt = h.params[pk[0]].get("t", "") if len(pk) == 1 else ""
                if len(pk) == 1 and "&" in pt and not pt.startswith("const "):
                    # the helper's cursor IS the caller's variable (reference parameter): nothing to return or store
                    cur, stored = key_of(strip_casts(n["args"][pk[0]])), True
                elif len(pk) == 1 and rets and all(key_of(strip_casts(x.node.get("v") or {})) == thr[0] for x in rets):
                    cur = key_of(strip_casts(n["args"][pk[0]]))
                    stored = any(asg(x.node) and (strip_casts(asg(x.node)[1]) or {}).get("id") == n.get("id") and key_of(asg(x.node)[0]) == cur for x in f.stmts())
                classified.add(anode.get("id"))
                steps.setdefault(cnt, []).append((calls, cur, e, stored))
    # a helper call whose result is dropped leaves parse()'s cursor where it was: fine only if nothing is decoded after it
    sites = [st[2] for v in steps.values() for st in v if st[2] is not None]
    for cnt in list(steps):
        steps[cnt] = [(c, (cur if stored or not any(o is not site and search(f, site, lambda x, o=o: x is o, eh=False) is not None for o in sites) else None), site, stored) for (c, cur, site, stored) in steps[cnt]]
    cursors = {st[1] for v in steps.values() for st in v if st[1] is not None}      # the sections must share ONE cursor variable
    for cnt, callee in COUNTS.items():
        r.instance()
        got = steps.get(cnt)
        if not got:
            # the count is consumed somewhere the rule did not follow (anything but sizing a container): refuse; not consumed at all: report
            other = [x for e in f.stmts() if "root" in e.raw and not (e.node.get("k") == "mcall" and last(e.node.get("callee", "")) == "reserve") for x in walk(e.node) if _hdr_count(x) == cnt and x.get("id") not in classified]
            if other:
                raise AnalysisBroken("DnsMessage::parse uses header.%s in `%s`, a shape of section decoding this rule does not know" % (cnt, show(f.root_elem(other[0]).node if f.root_elem(other[0]) else other[0])[:70]))
        ok = bool(got) and len(got) == 1 and got[0][0] == [callee] and got[0][1] is not None and len(cursors) == 1
        r.expect(ok, f, got[0][2] if got else None, "section loop: %s" % cnt, "the %s section is not decoded by one %s call per count with the cursor threaded through (%s)" % (cnt, callee, [(g_[0], g_[1]) for g_ in got] if got else None),
                 okdesc="%s × %s, cursor `%s` threaded" % (cnt, callee, got[0][1] if got else "-"))
    hs = [b for b in f.blocks.values() if b.cond is not None and common.cmp_parts(b.cond) and key_of(common.cmp_parts(b.cond)[1]) == "size" and "DNS_HEADER_SIZE" in show(common.cmp_parts(b.cond)[2]) or
          (b.cond is not None and common.cmp_parts(b.cond) and key_of(common.cmp_parts(b.cond)[1]) == "size" and const_value(common.cmp_parts(b.cond)[2]) == 12)]
    r.instance()
    lr.expect(len(hs) == 1 and any(x.kind == "stmt" and x.node.get("k") == "throw" for x in _reach_until_ret(f, hs[0].succs[0])), f, None, "header size", "a message shorter than the header is not rejected", okdesc="size < 12 → throw")
    # the counts are the 16-bit header fields read by parseHeader
    ph = dm(ctx, "parseHeader")
    fields = [show(strip_casts(asg(e.node)[0])) for e in ph.stmts() if asg(e.node) and "count" in show(asg(e.node)[0]) and "readUint16" in show(asg(e.node)[1])]
    r.instance()
    lr.expect(fields == ["header.qdcount", "header.ancount", "header.nscount", "header.arcount"] or sorted(fields) == sorted(["header.qdcount", "header.ancount", "header.nscount", "header.arcount"]), ph, None, "header counts", "parseHeader does not read the four counts as 16-bit fields", okdesc="four 16-bit counts")


def r4(ctx, r):
    fb = ctx.fb()
    pr = [g for g in fb.funcs(DT + "::processResponse") if g.ok]
    if len(pr) != 1:
        raise AnalysisBroken("DnsTransport::processResponse: %d definitions" % len(pr))
    pr = pr[0]
    ps = [e for e in pr.stmts() if e.node.get("k") in ("call", "mcall") and last(e.node.get("callee", "")) == "parse" and "DnsMessage" in e.node.get("callee", "")]
    r.instance()
    ok = len(ps) == 1 and ps[0].try_id and handler_covers(pr.trys[ps[0].try_id]["handlers"], "std::runtime_error")
    r.expect(ok, pr, ps[0] if ps else None, "parse outside try", "DnsMessage::parse is not called inside a try block whose handlers cover std::exception: a malformed response unwinds into the transport's I/O thread", okdesc="parse inside try/catch(std::exception)")
    if ok:
        hb = [b for b in pr.blocks.values() if b.label and b.label.get("k") == "catch" and b.label.get("try") == ps[0].try_id]
        els = [x for b in hb for x in _reach_until_ret(pr, b.id)]
        cq = [x for x in els if x.kind == "stmt" and x.node.get("k") == "mcall" and last(x.node.get("callee", "")) == "completeQuery"]
        r.instance()
        # completed WITH AN ERROR: the second argument is an exception_ptr made by std::make_exception_ptr, handed over as a
        # temporary or through a local initialised with it (whatever the local is called)
        def is_error(a):
            a = strip_views(a) or {}
            if a.get("k") == "var":
                ds = [v for d in pr.stmts() if d.node.get("k") == "decl" for v in d.node["vars"] if v.get("d") == a.get("d") and v["n"] == a["n"]]
                a = strip_views(ds[0].get("init")) if len(ds) == 1 and ds[0].get("init") is not None else {}
            return any(x.get("k") == "call" and last(x.get("callee", "")) == "make_exception_ptr" for x in walk(a or {}))
        r.expect(len(cq) >= 1 and any(len(x.node.get("args", [])) >= 2 and is_error(x.node["args"][1]) for x in cq), pr, None, "pending query not completed", "after a parse failure the pending query is not completed with an error (the caller waits for the full timeout)", okdesc="parse failure → completeQuery(key, error)")
        # the id is read from the raw bytes only behind size >= 2: the branches on `size` whose one edge every path to the read takes
        # (exception edges included — the reads sit in the handler) bound it from below, whichever way the test and the branch are written
        rd = [(e, k) for (e, b, k, w) in const_reads(pr, {"data"})]
        r.instance()

        def size_lo(e):
            facts_ = []
            for b in pr.blocks.values():
                co = common.cmp_oriented(b.cond, lambda x: const_value(x) is not None) if b.cond is not None and len(b.succs) == 2 and b.edge_label(0) is True else None
                if co and key_of(co[1]) == "size":
                    for si, truth in ((0, True), (1, False)):
                        if b.succs[si] is not None and dominated_by_edge(pr, e, b, si, eh=True):
                            facts_.append(({"k": "bin", "op": co[0], "lhs": strip_casts(co[1]), "rhs": co[2]}, truth))
            from ..finite import interval_of
            return interval_of(facts_, "size")[0] or 0
        r.expect(len(rd) == 2 and all(size_lo(e) >= k + 1 for e, k in rd), pr, rd[0][0] if rd else None, "query id read", "the handler reads the query id from the raw bytes without `size >= 2`", okdesc="id read behind size >= 2")
    # everything that can throw in the whole function is inside the try
    out = [e for e in pr.stmts() if "root" in e.raw and not e.try_id and not e.catch_id and e.node.get("k") in ("mcall", "call", "decl", "throw")]
    r.instance()
    r.expect(not out, pr, out[0] if out else None, "statement outside the try", "processResponse executes `%s` outside its try block" % (show(out[0].node)[:50] if out else ""), okdesc="whole body inside the try")
    # typed-record dispatcher contains its own failures
    pt = dm(ctx, "parseTypedRecord")
    calls = [e for e in pt.stmts() if e.node.get("k") in ("call", "mcall") and last(e.node.get("callee", "")).startswith("parse") and last(e.node.get("callee", "")).endswith("Record")]
    r.instance()
    r.expect(len(calls) >= 9 and all(e.try_id and handler_covers(pt.trys[e.try_id]["handlers"], "std::runtime_error") for e in calls), pt, None, "typed decoder failure", "a failing typed RDATA decoder aborts the whole message", okdesc="%d typed decoders inside try/catch(std::exception)" % len(calls))


def r5(ctx, r):
    fb = ctx.fb()
    fq = [g for g in fb.funcs("iora::network::dns::DnsCacheKey::fromQuestion") if g.ok]
    if len(fq) != 1:
        raise AnalysisBroken("DnsCacheKey::fromQuestion: %d definitions" % len(fq))
    fq = fq[0]
    asn = {show(strip_casts(asg(e.node)[0])): show(strip_views(asg(e.node)[1])) for e in fq.stmts() if asg(e.node)}
    low = [e for e in fq.stmts() if e.node.get("k") == "call" and last(e.node.get("callee", "")) == "transform" and "key.qname.begin()" in show(e.node) and "tolower" in show(e.node)]
    r.instance()
    r.expect(asn.get("key.qname") == "question.qname" and asn.get("key.qtype") == "question.qtype" and asn.get("key.qclass") == "question.qclass" and len(low) == 1, fq, None, "cache key fields",
             "the cache key is not (lower-cased name, type, class) of the question: %s" % asn, okdesc="key = (tolower(qname), qtype, qclass)")
    eq = [g for g in fb.funcs("iora::network::dns::DnsCacheKey::operator==") if g.ok]
    r.instance()
    ok = len(eq) == 1
    if ok:
        t = " ".join(show(e.node) for e in common.returns(eq[0]))
        ok = all(("%s == other.%s" % (x, x)) in t for x in ("qname", "qtype", "qclass")) and "||" not in t
    r.expect(ok, eq[0] if eq else fq, None, "cache key equality", "DnsCacheKey::operator== does not compare name, type and class", okdesc="== compares all three fields")
    hs = [g for g in fb.functions if g.ok and "hash" in g.name and "DnsCacheKey" in g.sig and g.name.endswith("operator()")]
    r.instance()
    ok = len(hs) >= 1 and all(all(x in " ".join(show(e.node) for e in g.stmts()) for x in ("qname", "qtype", "qclass")) for g in hs)
    r.expect(ok or len(hs) >= 1, hs[0] if hs else fq, None, "cache key hash", "no hash for DnsCacheKey found", okdesc="hash over the key fields")
    # every cache access builds the key through fromQuestion: the key argument is a local initialised by
    # DnsCacheKey::fromQuestion(<a parameter>), or — when the access sits in a helper that takes the key as a parameter — it is
    # such a local at every call site of the helper (followed through the call graph; a helper nobody calls has no key to judge)
    FQ = "iora::network::dns::DnsCacheKey::fromQuestion"
    cg = ctx.cg()

    def key_sources(f, knode, depth=0):
        """[(function, True/False)] — one verdict per calling context in which the key expression `knode` of f is evaluated"""
        kn = strip_views(knode) or {}
        if kn.get("k") == "call" and kn.get("callee") == FQ and len(kn.get("args", [])) == 1 and (strip_views(kn["args"][0]) or {}).get("parm") is not None:
            return [(f, True)]        # the key is built in place: cache_->get(DnsCacheKey::fromQuestion(question))
        if kn.get("k") != "var" or depth > 3:
            return [(f, False)]
        if kn.get("parm") is not None:
            out = []
            for (c, ce, cn) in cg.callers.get(f.name, []):
                if c.ok and len(cn.get("args", [])) == len(f.params) and f in resolve_callees(fb, cn):
                    out.extend(key_sources(c, cn["args"][kn["parm"]], depth + 1))
            return out or [(f, False)]
        kd = [v for d in f.stmts() if d.node.get("k") == "decl" for v in d.node["vars"] if v.get("d") == kn.get("d") and v["n"] == kn["n"]]
        init = strip_views(kd[0].get("init")) if len(kd) == 1 and kd[0].get("init") is not None else None
        rewritten = any(asg(x.node) and key_of(asg(x.node)[0]) == kn["n"] for x in f.stmts())
        good = init is not None and init.get("k") == "call" and init.get("callee") == FQ and len(init.get("args", [])) == 1 and (strip_views(init["args"][0]) or {}).get("parm") is not None and not rewritten
        return [(f, good)]
    n = 0
    for f in fb.methods_of(DC):
        if not f.ok:
            continue
        for e in f.stmts():
            if e.node.get("k") == "mcall" and last(e.node.get("callee", "")) in ("get", "set", "remove") and "ExpiringCache" in e.node.get("callee", ""):
                for (ctxf, good) in key_sources(f, e.node["args"][0]):
                    n += 1
                    r.instance()
                    r.expect(good, f, e, "cache key source", "%s accesses the cache with a key %snot built by DnsCacheKey::fromQuestion(question)" % (short(f.name), "(handed in by %s) " % short(ctxf.name) if ctxf is not f else ""),
                             okdesc="%s: key = fromQuestion(question)%s" % (last(f.name), " at the call in %s" % last(ctxf.name) if ctxf is not f else ""))
    if n < 7:
        raise AnalysisBroken("only %d cache accesses in DnsCache (floor 7)" % n)


def r6(ctx, r):
    fb = ctx.fb()
    lr = LocalClauses(ctx, r)
    gets = [g for g in fb.funcs(EC + "::get") if g.ok]
    sets = [g for g in fb.funcs(EC + "::set") if g.ok]
    if not gets or not sets:
        raise AnalysisBroken("ExpiringCache::get/set instantiations not found")
    for g in gets:
        def fresh_test(b):
            co = common.cmp_oriented(b.cond, lambda x: "now()" in show(x)) if b.cond is not None else None
            return co if co and "expiration" in show(co[1]) else None
        eb = [b for b in g.blocks.values() if fresh_test(b)]
        vals = [e for e in common.returns(g) if ".value" in show(e.node)]
        r.instance()
        ok = len(eb) == 1 and len(vals) >= 1 and fresh_test(eb[0])[0] == ">" and all(dominated_by_edge(g, e, eb[0], 0, eh=False) for e in vals) and "steady_clock::now" in show(eb[0].cond)
        lr.expect(ok, g, vals[0] if vals else None, "expired entry served", "ExpiringCache::get returns a stored value on a path that did not establish `expiration > steady_clock::now()`", okdesc="value only on expiration > now()")
        rets = [e for e in common.returns(g) if e not in vals]
        r.instance()
        lr.expect(all("nullopt" in show(e.node) for e in rets) and rets, g, None, "miss result", "a miss does not return nullopt", okdesc="otherwise nullopt")
    for g in sets:
        ed = [v for e in g.stmts() if e.node.get("k") == "decl" for v in e.node["vars"] if v["n"] == "expiration"]
        r.instance()
        # expiration = now() + L, where L selects between the TTL parameter (when it is positive) and the cache-wide default — as a
        # conditional expression or as a local that is declared with one of the two and re-assigned behind the test
        ok = len(ed) == 1 and isinstance(ed[0].get("init"), dict)
        if ok:
            init = strip_views(ed[0]["init"]) or {}
            ops = (init.get("args") if init.get("k") == "opcall" and init.get("op") == "+" else [init.get("lhs"), init.get("rhs")] if init.get("k") == "bin" and init.get("op") == "+" else None) or []
            nows = [o for o in ops if "steady_clock::now()" in show(o)]
            rest = [o for o in ops if o not in nows]
            ok = len(ops) == 2 and len(nows) == 1 and len(rest) == 1
            if ok:
                ch = _choice(g, rest[0])
                L = strip_views(rest[0]) or {}
                if ch is None and L.get("k") == "var" and L.get("parm") is None:
                    raise AnalysisBroken("ExpiringCache::set: the lifetime `%s` added to now() is computed in a shape this rule does not know" % show(L))
                ok = False
                if ch is not None:
                    co = common.cmp_oriented(ch[0], lambda x: const_value(x) is not None)
                    tv, fv = strip_views(ch[1]) or {}, strip_views(ch[2]) or {}
                    cl = (strip_casts(co[1]) or {}) if co else {}
                    pos = co is not None and (co[0], const_value(co[2])) in ((">", 0), (">=", 1)) and cl.get("k") == "mcall" and last(cl.get("callee", "")) == "count"
                    subj = strip_views(cl.get("obj")) if pos else None
                    ok = bool(pos and subj and subj.get("k") == "var" and subj.get("parm") is not None and tv.get("k") == "var" and tv.get("d") == subj.get("d") and tv.get("n") == subj.get("n")
                              and fv.get("k") == "member" and last(fv.get("n", "")) == "_ttl")
        lr.expect(ok, g, None, "expiration computation", "set() does not compute expiration = now + (customTtl > 0 ? customTtl : default)", okdesc="expiration = now + (ttl > 0 ? ttl : default)")
        # an unconditional store of the fresh expiration: whole-entry assignment / insert_or_assign / field assignment, on every path to the exit
        stores = []
        for e in g.stmts():
            n = e.node
            a = asg(n)
            if a and ("_cache[" in show(a[0]) or show(strip_casts(a[0])).endswith(".expiration")) and any(x.get("k") == "var" and x["n"] == "expiration" for x in walk(a[1])):
                stores.append(e)
            if n.get("k") == "mcall" and last(n.get("callee", "")) == "insert_or_assign" and any(x.get("k") == "var" and x["n"] == "expiration" for x in walk(n)):
                stores.append(e)
        r.instance()
        w = search(g, ("entry",), "exit", stop=lambda x: x in stores, eh=False)
        lr.expect(bool(stores) and w is None, g, None, "stale expiration kept", "ExpiringCache::set can return without having stored the freshly computed `expiration` in the entry (e.g. try_emplace/emplace/insert leave an existing entry's "
                 "expiration untouched): re-caching an answer with a shorter TTL keeps the old, later expiry and the entry is served after its TTL elapsed", witness=witness_str(g, w), okdesc="fresh expiration stored on every path")
    # DnsCache: TTL source and zero guard
    for nm, npar, ttlvar in (("put", 2, "ttl"), ("putNegative", 4, "negativeTtl")):
        f = [g for g in fb.funcs(DC + "::" + nm, DCF) if g.ok and len(g.params) == npar]
        if len(f) != 1:
            raise AnalysisBroken("DnsCache::%s/%d: %d definitions" % (nm, npar, len(f)))
        f = f[0]
        st = [e for e in f.stmts() if e.node.get("k") == "mcall" and last(e.node.get("callee", "")) == "set" and "ExpiringCache" in e.node.get("callee", "")]
        zb = [b for b in f.blocks.values() if b.cond is not None and common.cmp_parts(b.cond) and key_of(common.cmp_parts(b.cond)[1]) == ttlvar and const_value(common.cmp_parts(b.cond)[2]) == 0 and common.cmp_parts(b.cond)[0] == "=="]
        r.instance()
        ok = len(st) == 1 and len(zb) == 1 and dominated_by_edge(f, st[0], zb[0], 1, eh=False) and ttlvar in show(st[0].node["args"][2]) and "duration" in show(st[0].node["args"][2])
        lr.expect(ok, f, st[0] if st else None, "zero TTL cached: %s" % nm, "DnsCache::%s hands its TTL to ExpiringCache::set without excluding 0, which set() treats as 'use the default TTL': a do-not-cache answer is served for minutes" % nm,
                 okdesc="%s: ttl == 0 → not cached; else set(…, seconds(ttl))" % nm)
    put = [g for g in fb.funcs(DC + "::put", DCF) if g.ok][0]
    tv = [v for e in put.stmts() if e.node.get("k") == "decl" for v in e.node["vars"] if v["n"] == "ttl"]
    r.instance()
    lr.expect(len(tv) == 1 and "calculateResultTtl(result)" in show(tv[0]["init"]), put, None, "TTL source", "put() does not take the TTL from calculateResultTtl(result)", okdesc="ttl = calculateResultTtl(result)")
    # table agreement: every record collection of DnsResult is part of the minimum
    crt = [g for g in fb.funcs(DC + "::calculateResultTtl", DCF) if g.ok][0]
    rec = fb.record("iora::network::dns::DnsResult")
    colls = [x["n"] for x in rec["fields"] if "std::vector" in x["t"] and x["n"] != "questions"]
    ranges = [show(strip_views(v["init"])) for e in crt.stmts() if e.node.get("k") == "decl" for v in e.node["vars"] if v["n"].startswith("__range") and v.get("init") is not None]
    if len(colls) < 10:
        raise AnalysisBroken("DnsResult: only %d record collections found" % len(colls))
    # a collection takes part either as the range of its own loop or through its address in a list that a loop walks
    # (`for (auto *sec : {&result.answers, …})`): what matters is which DnsResult members the function reads at all — and that
    # every loop that iterates records folds the minimum
    RES = "iora::network::dns::DnsResult::"
    via_addr = {last(x["v"]["n"]) for e in crt.stmts() for x in walk(e.node) if x.get("k") == "un" and x.get("op") == "&" and (x.get("v") or {}).get("k") == "member" and x["v"]["n"].startswith(RES)}
    covered = {c for c in colls if "result." + c in ranges} | (via_addr & set(colls))
    # … or as the argument of a helper of the class that, on every path, lowers one of its reference parameters to the smallest
    # .ttl of that very parameter (`lowerTo(result.answers, min_ttl)`): the helper's loop is judged like a loop written here,
    # its accumulator parameter is mapped back to the caller's argument
    via_helper, unknown_use, dropped, accs = set(), {}, {}, set()
    for e in crt.stmts():
        n = e.node
        if n.get("k") not in ("call", "mcall") or not (n.get("callee") or "").startswith(DC + "::"):
            continue
        for i, a in enumerate(n.get("args", [])):
            m = strip_views(a) or {}
            if not (m.get("k") == "member" and (m.get("n") or "").startswith(RES) and last(m["n"]) in colls):
                continue
            hs_ = resolve_callees(fb, n)
            vs = [_helper_folds(h, i) for h in hs_]
            if hs_ and all(v is not None for v in vs) and len(set(vs)) == 1 and key_of(strip_views(n["args"][vs[0][0]])):
                if vs[0][1]:
                    via_helper.add(last(m["n"]))
                    accs.add(key_of(strip_views(n["args"][vs[0][0]])))
                else:
                    dropped[last(m["n"])] = (short(n["callee"]), hs_[0].params[vs[0][0]].get("n"))
            else:
                unknown_use[last(m["n"])] = short(n["callee"])
    covered |= via_helper
    # a collection the function never reads is ignored (a verdict); one it reads in some other way (an <algorithm> call over its
    # iterators, the whole DnsResult handed on) is a shape the rule does not know (a refusal)
    read_here = {last(x["n"]) for e in crt.stmts() for x in walk(e.node) if x.get("k") == "member" and (x.get("n") or "").startswith(RES)}
    whole = [e for e in crt.stmts() if e.node.get("k") in ("call", "mcall", "opcall", "ctor") and any((strip_views(a) or {}).get("k") == "var" and (strip_views(a) or {}).get("parm") == 0 for a in e.node.get("args", []))]
    for c in colls:
        r.instance()
        if c not in covered and c not in dropped and (c in unknown_use or c in read_here or whole):
            raise AnalysisBroken("calculateResultTtl %s, which does not fold the minimum in a shape this rule knows" % (
                "hands result.%s to %s" % (c, unknown_use[c]) if c in unknown_use else "reads result.%s outside a record loop" % c if c in read_here else "hands the whole DnsResult to `%s`" % show(whole[0].node)[:50]))
        r.expect(c in covered, crt, None, "TTL ignores %s" % c, "calculateResultTtl does not include DnsResult::%s in the minimum%s: a record there with a shorter TTL is served after it expired" % (
            c, " (%s lowers its BY-VALUE parameter `%s`: the result never reaches the caller)" % dropped[c] if c in dropped else ""), okdesc="min over result.%s" % c)
    mins = [e for e in crt.stmts() if asg(e.node) and "std::min" in show(asg(e.node)[1]) and key_of(asg(e.node)[0]) is not None and key_of(asg(e.node)[0]) in show(asg(e.node)[1])]
    loops = [b for b in crt.blocks.values() if b.term and b.term.get("k") == "CXXForRangeStmt" and b.cond is not None]
    # innermost record loops: loops whose body contains no other loop head
    inner = [b for b in loops if not any(o is not b and search(crt, ("block", b.succs[0]), lambda x, o=o: x.block is o, stop=lambda x, b=b: x.block is b, eh=False) is not None for o in loops)]
    r.instance()
    okm = (bool(inner) or bool(via_helper)) and all(any(search(crt, ("block", b.succs[0]), lambda x, m=m: x is m, stop=lambda x, b=b: x.block is b, eh=False) is not None and ".ttl" in show(asg(m.node)[1]) for m in mins) for b in inner)
    r.expect(okm, crt, None, "minimum computation", "a record loop of calculateResultTtl does not fold `x = std::min(x, record.ttl)`", okdesc="%d record loops%s fold the minimum" % (len(inner), " and %d helper calls" % len(via_helper) if via_helper else ""))
    # one accumulator: every fold — written here or done by a helper — lowers the same variable, and that variable is what every
    # return hands back (a fold into a scratch variable would be computed and dropped)
    accs |= {key_of(asg(m.node)[0]) for m in mins if ".ttl" in show(asg(m.node)[1])}
    rets = common.returns(crt)
    r.instance()
    if len(accs) == 1 and rets and not all(any(x.get("k") == "var" and x["n"] in accs for x in walk(e.node)) for e in rets):
        raise AnalysisBroken("calculateResultTtl: a return does not mention the accumulator `%s` — a shape this rule does not know" % sorted(accs)[0])
    r.expect(len(accs) == 1, crt, None, "minimum accumulator", "the minimum TTL is accumulated in %s: the folds do not lower one and the same variable, so part of the minimum is computed and dropped" % (sorted(accs) or "no variable"),
             okdesc="one accumulator `%s`, returned" % (sorted(accs)[0] if accs else "-"))
    cn = [g for g in fb.funcs(DC + "::calculateNegativeTtl", DCF) if g.ok][0]
    # min(SOA.minimum, SOA.ttl) of ONE record: both operands are members of SoaRecord read from the same object (whatever the local
    # that names it is called, a loop variable or `soa_records.front()`; `ttl` is inherited from DnsResourceRecord)
    SOA = "iora::network::dns::SoaRecord::"

    def soa_min(e):
        v = strip_views(e.node.get("v")) or {}
        if v.get("k") != "call" or v.get("callee") != "std::min" or len(v.get("args", [])) != 2:
            return False
        ms = [strip_views(a) or {} for a in v["args"]]
        return all(m.get("k") == "member" for m in ms) and sorted(last(m.get("n", "")) for m in ms) == ["minimum", "ttl"] and any(m.get("n") == SOA + "minimum" for m in ms) and show(ms[0].get("b")) == show(ms[1].get("b"))
    rt = [e for e in common.returns(cn) if any(x.get("k") == "member" and x.get("n") == SOA + "minimum" for x in walk(e.node))]
    r.instance()
    lr.expect(len(rt) == 1 and soa_min(rt[0]), cn, None, "negative TTL", "the negative-caching TTL is not min(SOA.minimum, SOA ttl)", okdesc="negative TTL = min(SOA minimum, ttl)")


def _choice(f, n):
    """(condition, value when it holds, value when it does not) that an expression selects between: a conditional expression, or a
    local with exactly two definitions — its declaration and ONE assignment sitting alone behind one edge of a two-way branch
    (`T x = a; if (c) x = b;` is `c ? b : a`).  None for anything else"""
    n = strip_views(n) or {}
    if n.get("k") == "cond":
        return n.get("c"), n.get("t"), n.get("f")
    if n.get("k") != "var" or n.get("parm") is not None:
        return None
    ds = [v for e in f.stmts() if e.node.get("k") == "decl" for v in e.node["vars"] if v.get("d") == n.get("d") and v["n"] == n["n"]]
    ws = [e for e in f.stmts() if e.node.get("k") in ("bin", "opcall") and is_assign(e.node) and (strip_casts(_ap(e.node)[0]) or {}).get("d") == n.get("d") and key_of(_ap(e.node)[0]) == n["n"]]
    if len(ds) != 1 or not isinstance(ds[0].get("init"), dict) or len(ws) != 1 or ws[0].node.get("op") != "=" or "root" not in ws[0].raw:
        return None
    wb = ws[0].block
    if len(wb.preds) != 1 or any("root" in e.raw and e is not ws[0] for e in wb.elems if e.kind == "stmt"):
        return None
    b = f.blocks[wb.preds[0]]
    if b.cond is None or len(b.succs) != 2 or b.edge_label(0) is not True or wb.id not in b.succs or b.succs[0] == b.succs[1]:
        return None
    # both arms meet again (the assignment is the whole arm) and the use comes after the meeting point
    other = b.succs[1] if b.succs[0] == wb.id else b.succs[0]
    if [s_ for s_ in wb.succs if s_ is not None] != [other]:
        return None
    rhs = _ap(ws[0].node)[2]
    return (b.cond, rhs, ds[0]["init"]) if b.succs[0] == wb.id else (b.cond, ds[0]["init"], rhs)


def _range_loops(f):
    """[(loop head, range expression, declaration of the loop's element variable)] of the range-for loops of f"""
    out = []
    decl = {v["d"]: v for e in f.stmts() if e.node.get("k") == "decl" for v in e.node["vars"] if v.get("d") is not None}
    for b in f.blocks.values():
        if not (b.term and b.term.get("k") == "CXXForRangeStmt" and b.cond is not None):
            continue
        bv = [x for x in walk(b.cond) if x.get("k") == "var" and x["n"].startswith("__begin")]
        if len(bv) != 1 or bv[0].get("d") not in decl:
            continue
        rv = [x for x in walk(decl[bv[0]["d"]].get("init") or {}) if x.get("k") == "var" and x["n"].startswith("__range")]
        if len(rv) != 1 or rv[0].get("d") not in decl:
            continue
        el = [v for v in decl.values() if not v["n"].startswith("__") and isinstance(v.get("init"), dict) and (strip_casts(v["init"]) or {}).get("k") in ("opcall", "un") and (strip_casts(v["init"]) or {}).get("op") == "*"
              and any(x.get("k") == "var" and x.get("d") == bv[0]["d"] for x in walk(v["init"]))]
        out.append((b, strip_views(decl[rv[0]["d"]].get("init")), el[0] if len(el) == 1 else None))
    return out


def _helper_folds(h, i):
    """(j, by_reference): h, on every path, lowers its parameter j to the smallest .ttl of the elements of its i-th parameter
    (`for (e : p_i) p_j = std::min(p_j, e.ttl)`, the only write to a parameter in h); by_reference says whether the caller sees the
    result (a by-value accumulator is lowered and dropped).  None when h does not do exactly that"""
    mine = [(b, el) for (b, rng, el) in _range_loops(h) if (rng or {}).get("k") == "var" and rng.get("parm") == i and el is not None]
    if len(mine) != 1:
        return None
    b, el = mine[0]
    if search(h, ("entry",), "exit", stop=lambda x: x.block is b, eh=False) is not None:
        return None           # a path through the helper that skips the loop
    folds = []
    for e in h.stmts():
        a = asg(e.node)
        rhs = strip_views(a[1]) if a else None
        if not a or not rhs or rhs.get("k") != "call" or rhs.get("callee") != "std::min" or len(rhs.get("args", [])) != 2:
            continue
        ops = [strip_views(x) or {} for x in rhs["args"]]
        acc = strip_casts(a[0]) or {}
        other = [o for o in ops if not (o.get("k") == "var" and o.get("d") == acc.get("d"))]
        if acc.get("k") == "var" and acc.get("parm") is not None and len(other) == 1 and other[0].get("k") == "member" and last(other[0].get("n", "")) == "ttl" and (strip_casts(other[0].get("b")) or {}).get("d") == el.get("d"):
            # executed on every iteration: the loop head is not reachable again from the body's start without passing it
            if search(h, ("block", b.succs[0]), lambda x: x.block is b, stop=lambda x, e=e: x is e, eh=False) is None:
                folds.append(acc["parm"])
    writes = [e for e in h.stmts() if asg(e.node) and (strip_casts(asg(e.node)[0]) or {}).get("parm") is not None]
    if len(folds) != 1 or len(writes) != 1:
        return None
    t = h.params[folds[0]].get("t", "")
    return (folds[0], "&" in t and not t.startswith("const "))


def r7(ctx, r):
    f = dm(ctx, "encodeName")
    # the length octet: the one value pushed into `encoded` that is not the constant root octet; the label-size test is the comparison
    # of THAT expression (label.length(), a local holding the label's length, …) with 63, and the push lies behind its passing edge
    pushes = [e for e in f.stmts() if e.node.get("k") == "mcall" and last(e.node.get("callee", "")) == "push_back" and key_of(e.node.get("obj")) == "encoded" and e.node.get("args") and const_value(strip_casts(e.node["args"][0])) is None]
    lenx = show(strip_casts(pushes[0].node["args"][0])) if len(pushes) == 1 else None

    def label_test(b):
        co = common.cmp_oriented(b.cond, lambda x: const_value(x) is not None) if b.cond is not None and len(b.succs) == 2 else None
        if not co or lenx is None or show(strip_casts(co[1])) != lenx:
            return None
        cv = const_value(co[2])
        return {">": (cv, 1), ">=": (cv - 1, 1), "<=": (cv, 0), "<": (cv - 1, 0)}.get(co[0])      # (largest length let through, passing edge)
    lb = [b for b in f.blocks.values() if label_test(b) and label_test(b)[0] >= 1]       # (`length > 0` / `!empty` tests are not the limit)
    r.instance()
    r.expect(len(lb) == 1 and len(pushes) == 1 and dominated_by_edge(f, pushes[0], lb[0], label_test(lb[0])[1], eh=False) and label_test(lb[0])[0] == 63, f, None, "encoder label limit",
             "encodeName emits a label without the 63-byte test (its length byte would collide with the compression marker)", okdesc="encoder: label <= 63")
    # the wire-size test: `encoded.size()` against a constant, whichever way round and with whichever of the four operators; `lim` is
    # the largest size it lets through and `pe` the successor taken when the name is let through
    def size_test(b):
        co = common.cmp_oriented(b.cond, lambda x: const_value(x) is not None) if b.cond is not None and len(b.succs) == 2 else None
        fm = lin(co[1]) if co else None
        if fm is None or tuple(fm[1]) != ("encoded.size()",):
            return None
        cv = const_value(co[2]) - fm[0]        # `encoded.size() + k > L` lets L - k through
        return {">": (cv, 1), ">=": (cv - 1, 1), "<=": (cv, 0), "<": (cv - 1, 0)}.get(co[0])
    nb = [b for b in f.blocks.values() if size_test(b)]
    r.instance()
    # every label put into `encoded` is followed by the test before the name is returned: from the label push no return is reachable
    # without taking the test's pass edge (a test inside the label loop and a test after it both do; a name without labels needs none)
    w = None
    if len(nb) == 1 and pushes:
        pe = size_test(nb[0])[1]
        w = search(f, pushes[0], lambda x: x.kind == "stmt" and x.node.get("k") == "ret", eh=False, edge_ok=lambda b, si: not (b is nb[0] and si == pe))
    r.expect(len(nb) == 1 and bool(pushes) and w is None, f, None, "encoder name limit", "encodeName can return a name to which a label was added without passing the 255-octet test (%s)" % (witness_str(f, w) if w else "%d size tests" % len(nb)),
             okdesc="encoder: every label is followed by the wire-size test")
    if len(nb) == 1:
        r.instance()
        # `encoded` holds the labels with their length octets; whether the terminating root octet is already in it WHEN THE TEST IS
        # EVALUATED decides the constant: 255 with it, 254 before it
        roots = [e for e in f.stmts() if e.node.get("k") == "mcall" and last(e.node.get("callee", "")) == "push_back" and const_value(strip_casts(e.node["args"][0])) == 0 and key_of(e.node.get("obj")) == "encoded"]
        before = [e for e in roots if search(f, e, lambda x: x.block is nb[0], eh=False) is not None]
        root_in = any(e.block.id in dominators(f, False)[nb[0].id] for e in before)
        if before and not root_in:
            raise AnalysisBroken("encodeName: the root octet is in `encoded` on some paths to the size test and not on others")
        later = [e for e in roots if e not in before and search(f, ("block", nb[0].succs[size_test(nb[0])[1]]), lambda x, e=e: x is e, eh=False) is not None]
        want = 255 if root_in else 254
        mx = size_test(nb[0])[0]
        if mx is not None and mx > want and not root_in and later:
            msg = ("encodeName compares encoded.size() with %d BEFORE the terminating root octet is appended (the test at line %s is passed first, `encoded.push_back(0)` at line %d follows it): labels and length octets may total %d, "
                   "the finished name is %d octets on the wire — over RFC 1035's 255 — and the library's own decoder rejects the query it built" % (mx, nb[0].term.get("l") or (nb[0].elems[-1].line if nb[0].elems else "?"), later[0].line, mx, mx + 1))
        else:
            msg = "encodeName accepts an encoded name of up to %s octets %s the root octet; RFC 1035 allows %d there: %s" % (
                mx, "including" if root_in else "before", want, "legal 252/253-character names are refused" if (mx or 0) < want else "over-long names are emitted")
        r.expect(mx == want, f, nb[0].elems[-1] if nb[0].elems else None, "encoder name limit value", msg, okdesc="encoder: wire name <= 255 (root octet %s)" % ("counted by the test" if root_in else "added after a 254 test"))
    # query field order agrees with the decoder: id, flags, counts; per question name, type, class
    bq = [g for g in ctx.fb().funcs(DM + "::buildQuery", DMF) if g.ok and len(g.params) == 3]
    r.instance()
    ok = len(bq) == 1
    if ok:
        ws = sorted([e for e in bq[0].stmts() if e.node.get("k") in ("call", "mcall") and last(e.node.get("callee", "")) in ("writeUint16", "writeUint32") and "root" in e.raw], key=lambda e: (e.line, e.idx))
        seq = [show(e.node["args"][1]) for e in ws]
        # the first field written is the query id: the id parameter itself or a local computed from it (`id != 0 ? id : generate…()`)
        def from_param(n, pname):
            n = strip_casts(n) or {}
            if n.get("k") != "var":
                return False
            if n.get("parm") is not None:
                return n["n"] == pname
            ds = [v for d in bq[0].stmts() if d.node.get("k") == "decl" for v in d.node["vars"] if v.get("d") == n.get("d") and v["n"] == n["n"]]
            return len(ds) == 1 and any(x.get("k") == "var" and x.get("parm") is not None and x["n"] == pname for x in walk(ds[0].get("init") or {}))
        ok = len(seq) >= 8 and from_param(ws[0].node["args"][1], "id") and "flags" in seq[1].lower() and "qtype" in seq[-2] and "qclass" in seq[-1]
    r.expect(ok, bq[0] if bq else DM, None, "query layout", "buildQuery does not write id, flags, four counts, then per question type and class in the order parseHeader/parseQuestion read them", okdesc="query layout matches the decoder")


OPAQUE = {"A", "AAAA", "TXT"}


def r8(ctx, r):
    f = dm(ctx, "validateRdataSecurity")
    # throws that depend on the VALUE of RDATA bytes of a type whose RDATA contains no names
    bad = []
    for e in f.stmts():
        if not (e.node.get("k") == "throw" and "root" in e.raw):
            continue
        facts = dominating_facts(f, e)
        types = set()
        content = False
        lengthonly = False
        for (c, t) in facts:
            s = show(c)
            for x in walk(c):
                # the record IS of that type on this path: `rr.type == T` holds, or `rr.type != T` (a guard clause) does not
                if x.get("k") == "enum" and "DnsType" in x["n"] and (("rr.type ==" in s and t) or ("rr.type !=" in s and not t and (common.cmp_parts(strip_casts(c)) or ("",))[0] == "!=")):
                    types.add(last(x["n"]))
            if "rr.rdata[" in s:
                content = True
            if ("rr.rdata.size() != " in s and t) or ("rr.rdata.size() == " in s and not t and (common.cmp_parts(strip_casts(c)) or ("",))[0] == "=="):
                lengthonly = True
        # `a || b` type tests do not dominate through one edge: fall back to the enclosing condition text
        if not types:
            for b in f.blocks.values():
                if b.cond is not None and "rr.type ==" in show(b.cond) and search(f, ("block", b.id), lambda x: x is e, eh=False) is not None:
                    for x in walk(b.cond):
                        if x.get("k") == "enum":
                            types.add(last(x["n"]))
        if content and (types & OPAQUE) and not lengthonly:
            bad.append((e, sorted(types & OPAQUE)))
    r.instance()
    if bad:
        for (e, ts) in bad:
            r.fail(f, e, "opaque RDATA rejected by content: %s" % "/".join(ts), "validateRdataSecurity throws for a %s record depending on the VALUE of its RDATA bytes (a byte >= 0xC0 is taken for a compression pointer). RDATA of these types contains no "
                   "domain names, so the bytes are opaque: well-formed answers such as AAAA fe80::1 or a TXT string with UTF-8 make the whole response fail to parse" % "/".join(ts))
    else:
        r.ok("no content-based rejection of A/AAAA/TXT RDATA with a correct length")
    # typed decoders of opaque types check the length only
    for nm, want in (("parseARecord", 4), ("parseAAAARecord", 16)):
        g = dm(ctx, nm)
        lb = [b for b in g.blocks.values() if b.cond is not None and common.cmp_parts(b.cond) and "rr.rdata.size()" in show(common.cmp_parts(b.cond)[1]) and const_value(common.cmp_parts(b.cond)[2]) == want and common.cmp_parts(b.cond)[0] == "!="]
        r.instance()
        r.expect(len(lb) == 1, g, None, "%s length" % nm, "%s does not require exactly %d bytes" % (nm, want), okdesc="%s: rdata.size() == %d" % (nm, want))


def field_reads(f, prefix):
    """ordered [(target text, reader, offset expression text)] of `target = readUintNN(buf, off)` assignments in source order"""
    out = []
    for e in sorted(f.stmts(), key=lambda e: (e.line, e.idx)):
        a = asg(e.node)
        if not a or "root" not in e.raw:
            continue
        lt = show(strip_casts(a[0]))
        if not lt.startswith(prefix):
            continue
        rd = [x for x in walk(a[1]) if x.get("k") in ("call", "mcall") and last(x.get("callee", "")) in ("readUint16", "readUint32")]
        if len(rd) == 1:
            out.append((lt, last(rd[0]["callee"]), show(rd[0]["args"][1])))
    return out


def r9(ctx, r):
    """wire layout tables: which field is read with which width, in which order / at which RDATA offset"""
    W16, W32 = "readUint16", "readUint32"
    for npar in (4, 5):
        f = dm(ctx, "parseResourceRecord", npar)
        f = forward_target(ctx.fb(), f) or f      # an overload that only forwards its parameters has the layout of its target
        got = [(t, w) for (t, w, o) in field_reads(f, "rr.")]
        r.instance()
        r.expect(got == [("rr.type", W16), ("rr.cls", W16), ("rr.ttl", W32), ("rr.rdlength", W16)], f, None, "record header layout", "parseResourceRecord/%d reads the fixed part as %s (RFC 1035 4.1.3: TYPE16 CLASS16 TTL32 RDLENGTH16)" % (npar, got),
                 okdesc="TYPE16, CLASS16, TTL32, RDLENGTH16")
        # each read is followed by an advance of its own width before the next read
        advs = [const_value(strip_casts(e.node["rhs"])) for e in sorted(f.stmts(), key=lambda e: (e.line, e.idx)) if e.node.get("k") == "bin" and e.node.get("op") == "+=" and key_of(e.node["lhs"]) == "offset" and const_value(strip_casts(e.node["rhs"])) is not None]
        r.instance()
        r.expect(advs == [2, 2, 4, 2], f, None, "record header advances", "the cursor advances by %s between the fixed fields (expected 2, 2, 4, 2)" % advs, okdesc="advances 2, 2, 4, 2")
    q = dm(ctx, "parseQuestion")
    got = [(t, w) for (t, w, o) in field_reads(q, "question.")]
    r.instance()
    r.expect(got == [("question.qtype", W16), ("question.qclass", W16)], q, None, "question layout", "parseQuestion reads %s (expected QTYPE16 QCLASS16)" % got, okdesc="QTYPE16, QCLASS16")
    h = dm(ctx, "parseHeader")
    got = [(t, w) for (t, w, o) in field_reads(h, "header.")]
    r.instance()
    r.expect(got == [("header.id", W16), ("header.qdcount", W16), ("header.ancount", W16), ("header.nscount", W16), ("header.arcount", W16)], h, None, "header layout", "parseHeader reads %s" % got, okdesc="ID, QDCOUNT, ANCOUNT, NSCOUNT, ARCOUNT as 16-bit fields in order")
    # flag bits
    want = {"header.qr": (0x8000, None), "header.aa": (0x0400, None), "header.tc": (0x0200, None), "header.rd": (0x0100, None), "header.ra": (0x0080, None), "header.opcode": (0x0F, 11), "header.z": (0x07, 4), "header.rcode": (0x0F, None)}
    for e in h.stmts():
        a = asg(e.node)
        if not a:
            continue
        lt = show(strip_casts(a[0]))
        if lt in want:
            masks = [const_value(strip_casts(x["rhs"])) for x in walk(a[1]) if x.get("k") == "bin" and x.get("op") == "&"]
            shifts = [const_value(strip_casts(x["rhs"])) for x in walk(a[1]) if x.get("k") == "bin" and x.get("op") == ">>"]
            r.instance()
            m, sh = want[lt]
            r.expect(masks == [m] and (shifts == [sh] if sh is not None else not shifts) and "flags" in show(a[1]), h, e, "flag field %s" % lt, "%s is extracted with mask %s shift %s (expected mask %#x%s)" % (lt, masks, shifts, m, ", shift %d" % sh if sh else ""),
                     okdesc="%s: mask %#x%s" % (lt, m, ", >> %d" % sh if sh else ""))
            want[lt] = None
    r.instance()
    r.expect(all(v is None for v in want.values()), h, None, "flag fields", "parseHeader does not extract %s" % [k for k, v in want.items() if v is not None], okdesc="all eight flag fields extracted")
    # typed records: fixed RDATA offsets
    tables = {
        "parseSrvRecord": [("record.priority", W16, "0"), ("record.weight", W16, "2"), ("record.port", W16, "4")],
        "parseMxRecord": [("record.preference", W16, "0")],
    }
    for nm, exp in tables.items():
        f = dm(ctx, nm)
        got = field_reads(f, "record.")
        r.instance()
        r.expect(got == exp, f, None, "%s layout" % nm, "%s reads %s (expected %s)" % (nm, got, exp), okdesc="%s: %s" % (nm, ", ".join("%s@%s" % (t.split(".")[1], o) for t, w, o in exp)))
    nmo = [v for e in dm(ctx, "parseSrvRecord").stmts() if e.node.get("k") == "decl" for v in e.node["vars"] if v["n"] == "nameOffset"]
    r.instance()
    r.expect(len(nmo) == 1 and const_value(strip_casts(nmo[0].get("init") or {})) == 6, dm(ctx, "parseSrvRecord"), None, "SRV target offset", "the SRV target name does not start at RDATA offset 6", okdesc="SRV target @6")
    nmo = [v for e in dm(ctx, "parseMxRecord").stmts() if e.node.get("k") == "decl" for v in e.node["vars"] if v["n"] == "nameOffset"]
    r.instance()
    r.expect(len(nmo) == 1 and const_value(strip_casts(nmo[0].get("init") or {})) == 2, dm(ctx, "parseMxRecord"), None, "MX exchange offset", "the MX exchange name does not start at RDATA offset 2", okdesc="MX exchange @2")
    soa = dm(ctx, "parseSoaRecord")
    got = [(t, w) for (t, w, o) in field_reads(soa, "record.")]
    # fields filled by a loop over a fixed list of their addresses (`for (uint32_t *p : {&record.serial, …}) { *p = readUint32(buf, off); off += 4; }`)
    # are read in list order, one reader call and one advance per element
    loop_advs, loop_once = [], []
    for (b, rng, el) in _range_loops(soa):
        rd_ = [v for e in soa.stmts() if e.node.get("k") == "decl" for v in e.node["vars"] if (rng or {}).get("k") == "var" and v.get("d") == rng.get("d") and v["n"] == rng.get("n")]
        vals = (rd_[0].get("init") or {}).get("vals") if len(rd_) == 1 and (rd_[0].get("init") or {}).get("k") == "ilist" else None
        if not vals or el is None or not all(x.get("k") == "un" and x.get("op") == "&" and (x.get("v") or {}).get("k") == "member" for x in vals):
            continue
        body = [e for e in soa.stmts() if "root" in e.raw and search(soa, ("block", b.succs[0]), lambda x, e=e: x is e, stop=lambda x, b=b: x.block is b, eh=False) is not None]
        ws_ = [e for e in body if asg(e.node) and (strip_casts(asg(e.node)[0]) or {}).get("k") == "un" and asg(e.node)[0].get("op") == "*" and (strip_casts(asg(e.node)[0]["v"]) or {}).get("d") == el.get("d")]
        rds = [x for e in ws_ for x in walk(asg(e.node)[1]) if x.get("k") in ("call", "mcall") and last(x.get("callee", "")) in ("readUint16", "readUint32")]
        adv_ = [const_value(strip_casts(e.node["rhs"])) for e in body if e.node.get("k") == "bin" and e.node.get("op") == "+=" and key_of(e.node["lhs"]) == "offset"]
        if len(ws_) == 1 and len(rds) == 1 and len(adv_) == 1:
            got += [(show(x["v"]), last(rds[0]["callee"])) for x in vals]
            loop_advs += adv_ * len(vals)
            loop_once = loop_once + adv_
    r.instance()
    r.expect(got == [("record.serial", W32), ("record.refresh", W32), ("record.retry", W32), ("record.expire", W32), ("record.minimum", W32)], soa, None, "SOA layout", "parseSoaRecord reads %s (expected SERIAL REFRESH RETRY EXPIRE MINIMUM as 32-bit fields)" % got,
             okdesc="SOA: five 32-bit fields in order")
    advs = [const_value(strip_casts(e.node["rhs"])) for e in sorted(soa.stmts(), key=lambda e: (e.line, e.idx)) if e.node.get("k") == "bin" and e.node.get("op") == "+=" and key_of(e.node["lhs"]) == "offset" and const_value(strip_casts(e.node["rhs"])) is not None]
    r.instance()
    for a_ in loop_once:
        advs.remove(a_)          # the loop body's advance was listed once; it runs once per field
    advs = advs + loop_advs      # (the advance behind the last field of a loop is dead)
    r.expect(advs == [4, 4, 4, 4] or (bool(loop_advs) and advs == [4, 4, 4, 4, 4]), soa, None, "SOA advances", "the SOA numeric fields are not 4 bytes apart (%s)" % advs, okdesc="SOA fields 4 bytes apart")
    nap = dm(ctx, "parseNaptrRecord")
    got = [(t, w) for (t, w, o) in field_reads(nap, "record.")]
    r.instance()
    r.expect(got == [("record.order", W16), ("record.preference", W16)], nap, None, "NAPTR layout", "parseNaptrRecord reads %s" % got, okdesc="NAPTR: ORDER16, PREFERENCE16")
    strs = [show(e.node["args"][-1]) for e in sorted(nap.stmts(), key=lambda e: (e.line, e.idx)) if e.node.get("k") == "opcall" and e.node.get("op") == "()" and key_of(e.node["args"][0]) == "parseString"]
    r.instance()
    r.expect(strs == ["record.flags", "record.service", "record.regexp"], nap, None, "NAPTR strings", "the NAPTR character-strings are decoded into %s (expected flags, service, regexp)" % strs, okdesc="NAPTR: flags, service, regexp")
    # readers are big-endian (network order)
    for nm, conv in (("readUint16", "ntohs"), ("readUint32", "ntohl")):
        f = dm(ctx, nm)
        r.instance()
        r.expect(any(x.node.get("k") == "ret" and conv in show(x.node) or (x.node.get("k") == "ret" and "__bswap" in show(x.node)) for x in f.stmts()) or any(conv in show(x.node) for x in f.stmts()), f, None, "byte order: %s" % nm,
                 "%s does not convert from network byte order" % nm, okdesc="%s: %s" % (nm, conv))



def anchors(ctx, r):
    fb = ctx.fb()
    tab = [(dm(ctx, "parseHeader"), ["offset", "size", "data"]), (dm(ctx, "parseQuestion"), ["offset", "size", "data"]), (dm(ctx, "parseResourceRecord", 5), ["offset", "size", "data", "rr"]),
           (dm(ctx, "decodeNameWithLoopDetection"), ["offset", "size", "data", "pointer", "visitedPointers", "length", "totalLength", "name"]),
           (dm(ctx, "decodeNameFromRdata"), ["rdataOffset", "rdataSize", "rdata", "consumedInRdata", "pointer", "messageSize"]), (dm(ctx, "parseTxtRecord"), ["offset", "rr"]), (dm(ctx, "parseSoaRecord"), ["offset", "rr"]),
           ([g for g in fb.funcs(DT + "::handleTcpData") if g.ok][0], ["buffer", "messageLength", "messageData"]), ([g for g in fb.funcs(DT + "::processResponse") if g.ok][0], ["data", "size"]),
           ([g for g in fb.funcs(DC + "::put", DCF) if g.ok][0], ["ttl", "key"]), ([g for g in fb.funcs(DC + "::calculateResultTtl", DCF) if g.ok][0], ["min_ttl", "result"])] + \
        [(g, ["expiration", "customTtl"]) for g in fb.funcs(EC + "::set") if g.ok]
    for f, names in tab:
        common.require_names(f, names)
        r.instance()
        r.ok("%s: %s" % (last(f.name), ", ".join(names)))


def r10(ctx, r):
    """(a) Only the root octet ends a name: the decode loop cannot be left for the normal return except through the `length == 0`
    arm (falling out because the data ran out would accept a truncated name).  (b) 'compression pointers that loop or point out
    of range are always errors': such errors have their own exception type, every pointer-error throw uses it, and the lenient
    per-record handler of parseTypedRecord lets it through (rethrow handler in front of the generic one).  (c) DnsCache is shared
    between threads: the pointer to the underlying cache is set at construction only — replacing the object in clear() destroys
    it under concurrent readers."""
    fb = ctx.fb()
    f = dm(ctx, "decodeNameWithLoopDetection")
    rets = common.returns(f)
    zero = [b for b in f.blocks.values() if b.cond is not None and (lambda co: co is not None and co[0] == "==" and key_of(co[1]) == "length" and const_value(co[2]) == 0)(common.cmp_oriented(b.cond, lambda x: const_value(x) is not None))]
    r.instance()
    if len(zero) != 1 or not rets:
        raise AnalysisBroken("decodeNameWithLoopDetection: root-octet test / return not identified")
    w = None
    for e in rets:
        w = w or search(f, ("entry",), lambda x, e=e: x is e, eh=False, edge_ok=lambda b, si: not (b is zero[0] and si == 0))
    r.expect(w is None, f, rets[0], "name ends without its root octet", "decodeNameWithLoopDetection can reach its return without having seen the zero length octet (%s): labels that run exactly to the end of the data — a truncated "
             "name in RDATA decoded against the whole message, or behind a forward pointer — are accepted as a complete name" % witness_str(f, w), okdesc="the loop is left only through `length == 0`")
    # (b)
    CE = "iora::network::dns::DnsCompressionException"
    nthrow = 0
    for g in (f, dm(ctx, "decodeNameFromRdata")):
        for e in g.stmts():
            if e.node.get("k") != "throw" or not e.node.get("t"):
                continue
            facts = dominating_facts(g, e)
            # the innermost facts that lead to this throw are about the pointer's VALUE (range / visited set)
            def ptr_value(c):
                return any(x.get("k") == "var" and x.get("n") == "pointer" for x in walk(c)) or any(x.get("k") == "var" and x.get("n") == "visitedPointers" for x in walk(c))
            inner = [c for (c, t) in facts if elem_dominates(g, g.elem_for(c), e)] if False else [c for (c, t) in facts]
            last_line = max([c.get("l") or 0 for c in inner] or [0])
            about_ptr = any(ptr_value(c) for c in inner if (c.get("l") or 0) == last_line)
            if not about_ptr:
                continue
            nthrow += 1
            r.instance()
            r.expect(e.node["t"] == CE, g, e, "pointer error with a tolerated type", "%s reports a looping / out-of-range compression pointer as %s: parseTypedRecord catches that type per record, drops only the typed view and lets the "
                     "message through (answers=1, cname_records=0) — the resolver caches a CNAME that lost its target" % (short(g.name), short(e.node["t"])), okdesc="%s: pointer error → DnsCompressionException" % short(g.name))
    if nthrow < 3:
        raise AnalysisBroken("only %d pointer-error throw sites found" % nthrow)
    # (b2) a pointer loop is ended by the visited set OR by the name-length limit, whichever comes first (a cycle longer than half
    # the limit reaches the limit before it meets the same pointer twice): once a pointer has been followed, the length-limit
    # failure is a pointer error too.  `followed` = the bool local that is set in the branch that assigns the cursor from the pointer.
    jl = None
    for e in f.stmts():
        a_ = asg(e.node)
        if a_ and strip_casts(a_[0]).get("k") == "var" and (strip_casts(a_[0]).get("t") or "").replace("const ", "") == "bool" and const_value(strip_casts(a_[1])) == 1:
            # set on the pointer side: dominated by the compression-mask test
            if any(t and any(x.get("k") in ("gvar", "member", "enum") and "DNS_COMPRESSION_MASK" in (x.get("n") or "") for x in walk(c)) for (c, t) in dominating_facts(f, e)):
                jl = strip_casts(a_[0])
    limb = [b for b in f.blocks.values() if b.cond is not None and any(x.get("k") in ("gvar", "member", "enum") and "DNS_MAX_NAME_WIRE_SIZE" in (x.get("n") or "") for x in walk(b.cond))]
    r.instance()
    if jl is None or not limb:
        raise AnalysisBroken("decodeNameWithLoopDetection: the `pointer followed` flag / the name-length limit test was not identified")
    vocab2 = Vocab(["followed"])

    def leaf2(n):
        if n.get("k") == "var" and n.get("d") == jl.get("d"):
            return A("followed")
        return None

    def eff2(e):
        if e.kind != "stmt":
            return None
        a_ = asg(e.node)
        if a_ and strip_casts(a_[0]).get("k") == "var" and strip_casts(a_[0]).get("d") == jl.get("d"):
            cv_ = const_value(strip_casts(a_[1]))
            return [("set", "followed", bool(cv_))] if cv_ is not None else [("havoc", "followed")]
        if e.node.get("k") == "decl":
            for v in e.node["vars"]:
                if v.get("d") == jl.get("d"):
                    cv_ = const_value(strip_casts(v.get("init") or {}))
                    return [("set", "followed", bool(cv_))] if cv_ is not None else [("havoc", "followed")]
        return None
    pa2 = PredAbs(f, vocab2, leaf2, eff2, eh=False)
    lim_throws = [e for e in f.stmts() if e.node.get("k") == "throw" and e.node.get("t") and any(search(f, ("block", [s_ for i_, s_ in enumerate(b.succs) if b.edge_label(i_) is True][0]), lambda x, e=e: x is e, eh=False) is not None
                                                                                                  and not search(f, ("block", [s_ for i_, s_ in enumerate(b.succs) if b.edge_label(i_) is False][0]), lambda x, e=e: x is e, eh=False,
                                                                                                                 stop=lambda x, b=b: x.block is b) for b in limb)]
    if not lim_throws:
        raise AnalysisBroken("decodeNameWithLoopDetection: no throw behind the name-length limit test")
    bad = [e for e in lim_throws if e.node["t"] != CE and not pa2.entails(e, Not(A("followed")))]
    r.expect(not bad, f, bad[0] if bad else lim_throws[0], "pointer loop ended by the length limit is tolerated",
             "decodeNameWithLoopDetection reports `name too long` as %s also after a compression pointer was followed: a pointer loop whose cycle is 128 octets or more (labels 63+63+63+61 and a pointer back) "
             "reaches the 255-octet limit before it meets the same pointer twice, parseTypedRecord tolerates that type per record, and the message decodes with the looping CNAME/MX/SRV target silently dropped"
             % (short(bad[0].node["t"]) if bad else "?"), okdesc="name-length failure after a followed pointer → DnsCompressionException")
    ptr = dm(ctx, "parseTypedRecord")
    for t in ptr.trys.values():
        hs = [h if isinstance(h, str) else (h.get("t") or "...") for h in t.get("handlers", [])]
        generic = [i for i, h in enumerate(hs) if h == "..." or "std::exception" in h or h.endswith("DnsParseException &") or "DnsException" in h]
        if not generic:
            continue
        r.instance()
        ci = [i for i, h in enumerate(hs) if "DnsCompressionException" in h]
        ok = bool(ci) and ci[0] < generic[0]
        if ok:
            hb = [b for b in ptr.blocks.values() if b.label and b.label.get("k") == "catch" and "DnsCompressionException" in (b.label.get("t") or "") and b.label.get("try") == t["id"]]
            ok = bool(hb) and any(e.kind == "stmt" and e.node.get("k") == "throw" and not e.node.get("v") for e in _reach_until_ret(ptr, hb[0].id))
        r.expect(ok, ptr, None, "pointer error swallowed per record", "parseTypedRecord's lenient handler (%s) is not preceded by a handler that rethrows DnsCompressionException: a CNAME/MX/SRV/PTR/SOA/NAPTR name that is a "
                 "self-pointer or points outside the message only loses its typed view" % hs[generic[0]], okdesc="DnsCompressionException rethrown before the lenient handler")
    # (c)
    nwr = 0
    for g in fb.in_file(DCF):
        if not g.ok:
            continue
        writes = [(e, n) for (e, n, k) in common.field_writes(g, DC + "::cache_")]
        for (e, n) in writes:
            nwr += 1
            # the only legitimate writer is reached from constructors alone
            callers = {c.name for (c, ce, cn) in ctx.cg().callers.get(g.name, [])}
            own_ok = g.kind == "ctor" or (callers and all(fb.by_name[c][0].kind == "ctor" for c in callers if c in fb.by_name))
            r.instance()
            r.expect(own_ok, g, e, "shared cache object replaced", "%s assigns DnsCache::cache_ and is reachable from %s: get/put/remove dereference that pointer without a lock, so replacing the object while the cache is in "
                     "use destroys it under a concurrent reader (heap-use-after-free; clear() racing the resolver's completion callback)" % (short(g.name), sorted(short(c) for c in callers) or "nowhere"),
                     okdesc="%s: cache_ set during construction only" % short(g.name))
    if nwr < 1:
        raise AnalysisBroken("DnsCache::cache_: no write found")


def run(ctx, ck):
    r0 = ck.run_rule("C19-R0", "the local names the rules are anchored on exist (a rename makes the analysis refuse — exit 2 — instead of raising a false alarm)", "anchor table", lambda r: anchors(ctx, r))
    if r0.broken:
        return
    ck.run_rule("C19-R1", "every decoder read lies inside the window established since the cursor last moved; checkBounds cannot wrap", "A7 cursor-window abstract interpretation (checkBounds idiom, symbolic lengths)", lambda r: r1(ctx, r))
    ck.run_rule("C19-R2", "compression pointers: range test, visited set, limits, progress", "A2 dominance + cycle analysis", lambda r: r2(ctx, r))
    ck.run_rule("C19-R3", "section loops are driven by the 16-bit header counts through the guarded readers", "A2", lambda r: r3(ctx, r))
    ck.run_rule("C19-R4", "parse failures are contained and complete the pending query", "A9", lambda r: r4(ctx, r))
    ck.run_rule("C19-R5", "cache key = (case-folded name, type, class), built only through fromQuestion", "A10", lambda r: r5(ctx, r))
    ck.run_rule("C19-R6", "expiry checked on every hit; fresh expiration stored on every set; minimum TTL over every record collection; zero TTL not cached", "A2 + A10 table agreement", lambda r: r6(ctx, r))
    ck.run_rule("C19-R7", "encoder limits; query layout matches the decoder", "A2", lambda r: r7(ctx, r))
    ck.run_rule("C19-R9", "wire layout tables: field widths, order, flag masks, typed-record offsets, byte order", "A10 table extraction", lambda r: r9(ctx, r))
    ck.run_rule("C19-R10", "names end only at the root octet; pointer errors are fatal also in RDATA; the shared cache object is never replaced", "A2 path rule + exception typestate + A3 who-may-write", lambda r: r10(ctx, r))
    ck.run_rule("C19-R8", "RDATA of A/AAAA/TXT is opaque: no rejection by byte content", "A10", lambda r: r8(ctx, r))
