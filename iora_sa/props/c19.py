"""C19 — DNS messages decode exactly or are rejected; cached answers honour TTL (DESIGN.md §2 C19)."""
from ..cfg import search, witness_str, dominated_by_edge, elem_dominates
from ..expr import show, walk, last, field_of, strip_wrappers, strip_casts, short, const_value, is_assign, assign_parts as _ap, strip_views
from ..facts import AnalysisBroken
from ..finite import dominating_facts, flatten_fact
from ..predabs import Vocab, PredAbs, A, Not, And, Or, T, F
from ..rules import common
from ..window import Window, lin, form, show_form, guard_ops, TOP, is_top
from .c15 import asg, key_of, _reach_until_ret, handler_covers

TITLE = "DNS messages decode exactly or are rejected; cached answers honour TTL"
TECHNIQUE = 'cursor-window abstract interpretation of every DNS decode function (checkBounds idiom, symbolic 8/16-bit lengths) and constant-index reads behind dominating size tests; dominance rules for pointer range / visited set; handler coverage; table agreement between DnsResult and the minimum-TTL computation; must-store of the fresh expiration'
DM = "iora::network::dns::DnsMessage"
DC = "iora::network::dns::DnsCache"
DT = "iora::network::dns::DnsTransport"
EC = "iora::util::ExpiringCache"
DMF, DCF, DTF, DYF, ECF = "dns/dns_message.hpp", "dns/dns_cache.hpp", "dns/dns_transport.hpp", "dns/dns_types.hpp", "util/expiring_cache.hpp"

EXPLANATION = (
    "Exact decoding quantifies over all messages; decided statically are its structural necessary conditions. R1 window discipline: a "
    "cursor-window abstract interpretation of every DnsMessage decode function (cursor/limit pairs offset/size, rdataOffset/rdataSize, "
    "consumedInRdata/rdataSize, local offsets over rr.rdata; the throwing checkBounds(off, n, total) call is the window-establishing "
    "idiom; symbolic lengths rdlength/length/len must be the same expression in guard and use) proves every byte, 16/32-bit read and "
    "copied range inside the window established since the cursor last moved, plus constant-index reads of RDATA behind a dominating "
    "size test; checkBounds itself is the non-wrapping `offset + needed > total → throw`. R2 compression pointers: the jump is behind "
    "`pointer >= size → throw` and the visited-set test, the insert precedes the jump; label <= 63 and name <= 255 tests; every loop "
    "iteration moves the cursor or leaves. R3 section loops are driven by the 16-bit header counts through the R1-guarded readers. "
    "R4 parse failures are contained: DnsTransport::processResponse parses inside a try covering std::exception and completes the "
    "pending query with the error; the typed-record dispatcher contains its own failures. R5 the cache key is the case-folded name, "
    "type and class, built only through DnsCacheKey::fromQuestion, compared on all three. R6 expiry: ExpiringCache::get returns a value "
    "only on the `expiration > now` edge, set() stores a freshly computed expiration on every path (also when the key exists), "
    "DnsCache::put uses the minimum TTL over every record collection of DnsResult (table agreement with the struct), zero TTLs are not "
    "handed to the default-TTL sentinel. R7 encoder limits and query/decoder field order agree. R8 RDATA of A/AAAA/TXT is opaque: no "
    "rejection by byte content.")
NOT_DECIDED = ["exactness of decoded records for all layouts", "the wall clock (steady_clock monotonicity assumed)", "amplification by reserve(count) (bounded by 4 x 65535 records)",
               "names that run to the end of the message without terminator are returned, not rejected"]


def dm(ctx, name, nparams=None):
    fs = [f for f in ctx.fb().funcs(DM + "::" + name, DMF) if f.ok and (nparams is None or len(f.params) == nparams)]
    if len(fs) != 1:
        raise AnalysisBroken("DnsMessage::%s: %d definitions" % (name, len(fs)))
    return fs[0]


def decode_window(f, cur, sizes, bufnames, floor_from_facts=True):
    """Window over one (cursor, limit) pair of a DnsMessage decode function.
    bufnames: textual forms of the buffer (`data`, `rdata`, `rr.rdata`, `rr.rdata.data()`)"""
    is_buf = lambda n: show(strip_casts(n)) in bufnames
    lam_names = {ln.get("n") for (ln, lf) in f.lambdas} if f.lambdas else set()

    def strip_cur(fm):
        return form(fm[0], [s for s in fm[1] if s != cur])

    def edge(c, truth):
        return guard_ops(c, truth, cur, sizes)

    def ptr_form(n):
        """linear form of a pointer expression `buf + …` → offset part, or None"""
        fm = lin(n)
        if fm is None:
            return None
        bs = [s for s in fm[1] if s in bufnames]
        if len(bs) != 1:
            return None
        return form(fm[0], [s for s in fm[1] if s not in bufnames])

    def elem(e):
        if e.kind != "stmt":
            return None
        n = e.node
        k = n.get("k")
        ops = []
        if k in ("call", "mcall") and last(n.get("callee", "")) == "checkBounds" and len(n.get("args", [])) == 3:
            a, need, tot = n["args"]
            fa, fn_ = lin(a), lin(need)
            if fa is not None and fn_ is not None and list(fa[1]).count(cur) == 1 and show(strip_casts(tot)) in {s.replace(".size()", "") for s in sizes} | sizes:
                rest = strip_cur(fa)
                ops.append(("atleast", form(rest[0] + fn_[0], list(rest[1]) + list(fn_[1]))))
        elif k in ("call", "mcall") and last(n.get("callee", "")) in ("readUint16", "readUint32") and len(n.get("args", [])) == 2 and is_buf(n["args"][0]):
            w = 2 if last(n["callee"]).endswith("16") else 4
            fa = lin(n["args"][1])
            if fa is not None and list(fa[1]).count(cur) == 1:
                rest = strip_cur(fa)
                ops.append(("need", form(rest[0] + w, rest[1]), "%s(%s, %s)" % (last(n["callee"]), show(n["args"][0]), show(n["args"][1]))))
            elif fa is not None and not fa[1] and cur == "0":
                ops.append(("need", form(fa[0] + w), "%s(%s, %s)" % (last(n["callee"]), show(n["args"][0]), show(n["args"][1]))))
            elif fa is None or cur in (fa[1] if fa else ()):
                ops.append(("need", TOP, "%s(%s, %s)" % (last(n["callee"]), show(n["args"][0]), show(n["args"][1]))))
        elif (k == "idx" or (k == "opcall" and n.get("op") == "[]")) and is_buf(n.get("b") or n.get("base") or (n.get("args") or [{}])[0]):
            ie = n.get("i") or n.get("index") or (n.get("args") or [None, None])[1]
            ies = strip_casts(ie)
            if ies.get("k") == "un" and ies.get("op") == "post++" and key_of(ies["v"]) == cur:
                return None
            fa = lin(ie)
            if fa is not None and list(fa[1]).count(cur) == 1:
                rest = strip_cur(fa)
                ops.append(("need", form(rest[0] + 1, rest[1]), "%s[%s]" % (show(n.get("b") or n.get("base") or n["args"][0]), show(ie))))
        elif k == "mcall" and last(n.get("callee", "")) in ("assign", "append") and n.get("args"):
            a = [x for x in n["args"] if not x.get("def")]
            p0 = ptr_form(strip_views(a[0])) if a else None
            if p0 is not None and cur in p0[1] and len(a) == 2:
                p1 = ptr_form(strip_views(a[1]))
                if p1 is not None and cur in p1[1]:
                    # (first, last) pointer range
                    rest = strip_cur(p1)
                    ops.append(("need", rest, "%s(%s, %s)" % (last(n["callee"]), show(a[0])[:30], show(a[1])[:36])))
                else:
                    ln = lin(a[1])
                    rest = strip_cur(p0)
                    ops.append(("need", form(rest[0] + ln[0], list(rest[1]) + list(ln[1])) if ln is not None else TOP, "%s(%s, %s)" % (last(n["callee"]), show(a[0])[:36], show(a[1]))))
        elif k == "ctor" and n.get("cls") == "std::basic_string" and len([x for x in n.get("args", []) if not x.get("def")]) == 2:
            a = [x for x in n["args"] if not x.get("def")]
            p0 = ptr_form(strip_views(a[0]))
            if p0 is not None and cur in p0[1]:
                ln = lin(a[1])
                rest = strip_cur(p0)
                ops.append(("need", form(rest[0] + ln[0], list(rest[1]) + list(ln[1])) if ln is not None else TOP, "std::string(%s, %s)" % (show(a[0])[:36], show(a[1]))))
        elif k == "un" and n.get("op") == "post++" and key_of(n["v"]) == cur:
            par = f.nodes.get(f.parent.get(n.get("id")))
            while par is not None and par.get("k") == "cast":
                par = f.nodes.get(f.parent.get(par.get("id")))
            if par is not None and (par.get("k") == "idx" or (par.get("k") == "opcall" and par.get("op") == "[]")):
                ops.append(("need", form(1), "%s[%s++]" % (show(par.get("b") or par.get("base") or par["args"][0]), cur)))
            ops.append(("adv", form(1)))
        elif k == "un" and n.get("op") in ("++", "pre++") and key_of(n["v"]) == cur:
            ops.append(("adv", form(1)))
        elif k == "bin" and n.get("op") == "+=" and key_of(n["lhs"]) == cur:
            fm = lin(n["rhs"])
            ops.append(("adv", fm) if fm is not None else ("reset", None))
        elif k in ("bin", "opcall") and is_assign(n) and key_of(_ap(n)[0]) == cur:
            ops.append(("reset", None))
        elif k in ("bin", "opcall") and is_assign(n) and key_of(_ap(n)[0]):
            ops.append(("kill", key_of(_ap(n)[0])))
        elif k == "decl":
            for v in n["vars"]:
                if v["n"] == cur:
                    # cursor starts at 0: the window is what the dominating size tests established
                    if const_value(strip_casts(v.get("init") or {})) == 0:
                        fl = max([size_floor(f, e, s_.replace(".size()", "")) for s_ in sizes] + [0])
                        ops.append(("reset", form(fl)))
                    else:
                        ops.append(("reset", None))
                else:
                    ops.append(("kill", v["n"]))
        elif k == "opcall" and n.get("op") == "()" and key_of(n["args"][0]) in lam_names:
            ops.append(("reset", None))      # a local lambda that captures the cursor by reference
        return ops or None
    return Window(f, edge, elem, init=None)


def const_reads(f, bufs):
    """(Elem, buffer text, highest index read) for constant-index reads / fixed-offset big-endian reads of RDATA"""
    out = []
    for e in f.stmts():
        n = e.node
        if (n.get("k") == "idx" or (n.get("k") == "opcall" and n.get("op") == "[]")):
            b = n.get("b") or n.get("base") or (n.get("args") or [{}])[0]
            ie = n.get("i") or n.get("index") or (n.get("args") or [None, None])[1]
            if show(strip_casts(b)) in bufs and const_value(strip_casts(ie)) is not None:
                out.append((e, show(strip_casts(b)), const_value(strip_casts(ie)), "%s[%d]" % (show(strip_casts(b)), const_value(strip_casts(ie)))))
        if n.get("k") in ("call", "mcall") and last(n.get("callee", "")) in ("readUint16", "readUint32") and len(n.get("args", [])) == 2:
            b = show(strip_casts(n["args"][0])).replace(".data()", "")
            k = const_value(strip_casts(n["args"][1]))
            if b in bufs and k is not None:
                w = 2 if last(n["callee"]).endswith("16") else 4
                out.append((e, b, k + w - 1, "%s(%s, %d)" % (last(n["callee"]), show(n["args"][0]), k)))
        if n.get("k") == "call" and last(n.get("callee", "")) == "memcpy" and len(n.get("args", [])) == 3:
            b = show(strip_casts(strip_views(n["args"][1]))).replace(".data()", "")
            k = const_value(strip_casts(n["args"][2]))
            if b in bufs and k is not None:
                out.append((e, b, k - 1, "memcpy(…, %s, %d)" % (show(n["args"][1]), k)))
    return out


def size_floor(f, e, buf):
    """largest L with `buf.size() >= L` implied by the branches dominating e"""
    L = 0
    for (c, truth) in dominating_facts(f, e):
        cp = common.cmp_parts(strip_casts(c))
        if cp and show(strip_casts(cp[1])) in (buf + ".size()", buf + ".length()") and const_value(cp[2]) is not None:
            op = cp[0] if truth else {"<": ">=", ">=": "<", ">": "<=", "<=": ">", "==": "!=", "!=": "=="}[cp[0]]
            cv = const_value(cp[2])
            if op == ">=":
                L = max(L, cv)
            elif op == ">":
                L = max(L, cv + 1)
            elif op == "==":
                L = max(L, cv)
        t = show(strip_casts(c))
        if t == buf + ".empty()" and truth is False:
            L = max(L, 1)
    return L


def r1(ctx, r):
    fb = ctx.fb()
    # checkBounds: the one non-wrapping test
    cb = dm(ctx, "checkBounds")
    tb = [b for b in cb.blocks.values() if b.cond is not None and common.cmp_parts(b.cond)]
    r.instance()
    ok = len(tb) == 1
    if ok:
        op, l, rr = common.cmp_parts(tb[0].cond)
        fl = lin(l)
        ok = op == ">" and fl is not None and sorted(fl[1]) == ["needed", "offset"] and fl[0] == 0 and key_of(rr) == "total" and any(x.kind == "stmt" and x.node.get("k") == "throw" for x in _reach_until_ret(cb, tb[0].succs[0]))
        ok = ok and "size_t" in cb.params[1]["t"] or ok and "long" in cb.params[1]["t"]
    r.expect(ok, cb, None, "checkBounds", "DnsMessage::checkBounds is not `offset + needed > total → throw`", okdesc="checkBounds: offset + needed > total → throw DnsParseException")
    # every caller passes a 16-bit-bounded `needed` (constants, uint8/uint16 values): offset + needed cannot wrap
    n16 = 0
    for f in fb.in_file(DMF):
        if not f.ok:
            continue
        for e in f.stmts():
            if e.node.get("k") in ("call", "mcall") and last(e.node.get("callee", "")) == "checkBounds":
                need = strip_casts(e.node["args"][1])
                t = (need.get("t") or "")
                n16 += 1
                r.instance()
                r.expect(const_value(need) is not None or "short" in t or "char" in t or "uint16" in t or "uint8" in t, f, e, "checkBounds needed width", "%s passes `%s` (type %s) as `needed`: with a value near 2^64 the sum offset + needed wraps and the check passes"
                         % (last(f.name), show(need), t), okdesc="%s: needed is a constant / 8-16 bit value" % last(f.name))
    if n16 < 6:
        raise AnalysisBroken("only %d checkBounds calls (floor 6)" % n16)
    specs = [
        ("parseHeader", None, "offset", {"size"}, {"data"}),
        ("parseQuestion", None, "offset", {"size"}, {"data"}),
        ("parseResourceRecord", 4, "offset", {"size"}, {"data"}),
        ("parseResourceRecord", 5, "offset", {"size"}, {"data"}),
        ("decodeNameWithLoopDetection", None, "offset", {"size"}, {"data"}),
        ("decodeNameFromRdata", None, "rdataOffset", {"rdataSize"}, {"rdata"}),
        ("decodeNameFromRdata", None, "consumedInRdata", {"rdataSize"}, {"rdata"}),
        ("parseNaptrRecord", None, "offset", {"rr.rdata.size()"}, {"rr.rdata", "rr.rdata.data()"}),
        ("parseTxtRecord", None, "offset", {"rr.rdata.size()"}, {"rr.rdata", "rr.rdata.data()"}),
        ("parseSoaRecord", None, "offset", {"rr.rdata.size()"}, {"rr.rdata", "rr.rdata.data()"}),
        ("validateRdataSecurity", None, "i", {"rr.rdata.size()"}, {"rr.rdata"}),
    ]
    total = 0
    for (nm, npar, cur, sizes, bufs) in specs:
        f = dm(ctx, nm, npar)
        targets = [f] + [lf for (ln, lf) in f.lambdas if lf.ok]
        for g in targets:
            w = decode_window(g, cur, sizes, bufs)
            total += len(w.checked) + len(w.violations)
            r.instance(len(w.checked) + len(w.violations))
            for (e, what) in w.checked:
                r.ok("%s: %s inside the window (%s/%s)" % (last(f.name), what, cur, sorted(sizes)[0]))
            for (e, need, have, what) in w.violations:
                r.fail(f, e, "outside window: %s" % what.split("(")[0] + ("(" + what.split("(", 1)[1] if "(" in what else ""), "%s performs `%s`, which needs %s byte(s) from the cursor `%s`, but only %s established since the cursor last moved: "
                       "a truncated or crafted message makes the decoder read outside the buffer" % (last(f.name) + (" (lambda)" if g is not f else ""), what, show_form(need) if not is_top(need) else "a bound the analysis cannot establish", cur, show_form(have)))
    if total < 36:
        raise AnalysisBroken("only %d windowed reads recognised in the DNS decoders (floor 36)" % total)
    # constant-index / fixed-offset reads of RDATA behind a size test
    nconst = 0
    for nm in ("parseARecord", "parseAAAARecord", "parseSrvRecord", "parseMxRecord", "validateRdataSecurity", "parseNaptrRecord"):
        f = dm(ctx, nm)
        for (e, buf, hi, what) in const_reads(f, {"rr.rdata"}):
            nconst += 1
            r.instance()
            L = size_floor(f, e, buf)
            r.expect(hi + 1 <= L, f, e, "outside RDATA: %s" % what, "%s performs `%s` (needs %d bytes of RDATA) but only rdata.size() >= %d is established on that path" % (last(f.name), what, hi + 1, L),
                     okdesc="%s: %s behind rdata.size() >= %d" % (last(f.name), what, L))
    # indexed reads with a non-constant index in parseAAAARecord's fallback: i*2+1 < 16 by the loop bound
    f = dm(ctx, "parseAAAARecord")
    lp = [b for b in f.blocks.values() if b.cond is not None and common.cmp_parts(b.cond) and common.cmp_parts(b.cond)[0] == "<" and const_value(common.cmp_parts(b.cond)[2]) is not None and key_of(common.cmp_parts(b.cond)[1]) == "i"]
    r.instance()
    r.expect(len(lp) == 1 and const_value(common.cmp_parts(lp[0].cond)[2]) * 2 <= 16 and size_floor(f, lp[0].elems[0], "rr.rdata") >= 16, f, None, "AAAA fallback index", "the AAAA fallback formatter indexes beyond 16 bytes", okdesc="AAAA fallback: i < 8, index i*2+1 < 16")
    if nconst < 14:
        raise AnalysisBroken("only %d constant-index RDATA reads (floor 14)" % nconst)
    # TCP length prefix in the transport: buffer[0], buffer[1] behind size() >= 2; message copy behind size() >= 2 + len
    ht = [g for g in fb.funcs(DT + "::handleTcpData") if g.ok]
    if len(ht) != 1:
        raise AnalysisBroken("DnsTransport::handleTcpData: %d definitions" % len(ht))
    ht = ht[0]
    rd = [(e, k) for (e, b, k, w) in const_reads(ht, {"buffer"})]
    r.instance()
    r.expect(len(rd) == 2 and all(size_floor(ht, e, "buffer") >= 2 for e, k in rd), ht, None, "TCP length prefix", "the TCP length prefix is read without `buffer.size() >= 2`", okdesc="TCP prefix behind buffer.size() >= 2")
    cpb = [b for b in ht.blocks.values() if b.cond is not None and common.cmp_parts(b.cond) and common.cmp_parts(b.cond)[0] == "<" and "buffer.size()" in show(common.cmp_parts(b.cond)[1]) and "messageLength" in show(common.cmp_parts(b.cond)[2])]
    md = [e for e in ht.stmts() if e.node.get("k") == "decl" and any(v["n"] == "messageData" for v in e.node["vars"])]
    r.instance()
    r.expect(len(cpb) == 1 and len(md) == 1 and dominated_by_edge(ht, md[0], cpb[0], 1, eh=False), ht, None, "TCP message copy", "the TCP message is copied out without `buffer.size() >= 2 + messageLength`", okdesc="TCP message copied behind the completeness test")
    capb = [b for b in ht.blocks.values() if b.cond is not None and "maxTcpBufferSize" in show(b.cond) and "buffer.size()" in show(b.cond)]
    ins = [e for e in ht.stmts() if e.node.get("k") == "mcall" and last(e.node.get("callee", "")) == "insert" and key_of(e.node.get("obj")) == "buffer"]
    r.instance()
    r.expect(len(capb) == 1 and len(ins) == 1 and dominated_by_edge(ht, ins[0], capb[0], 1, eh=False), ht, None, "TCP buffer cap", "the TCP reassembly buffer grows without the maxTcpBufferSize test", okdesc="TCP buffer capped")


def r2(ctx, r):
    f = dm(ctx, "decodeNameWithLoopDetection")
    jump = [e for e in f.stmts() if asg(e.node) and key_of(asg(e.node)[0]) == "offset" and key_of(asg(e.node)[1]) == "pointer"]
    def range_test(b):
        co = common.cmp_oriented(b.cond, lambda x: key_of(x) == "size") if b.cond is not None else None
        return co if co and key_of(co[1]) == "pointer" else None
    rng = [b for b in f.blocks.values() if range_test(b)]
    vis = [b for b in f.blocks.values() if b.cond is not None and "visitedPointers.find(pointer)" in show(b.cond)]
    ins = [e for e in f.stmts() if e.node.get("k") == "mcall" and last(e.node.get("callee", "")) == "insert" and key_of(e.node.get("obj")) == "visitedPointers"]
    r.instance()
    if len(jump) == 1 and not rng:
        # no explicit comparison: the range may be established through the throwing helper checkBounds(off, n, total), which
        # guarantees off + n <= total.  A valid pointer needs pointer + 1 <= size.
        cbs = [e for e in f.stmts() if e.node.get("k") in ("call", "mcall") and last(e.node.get("callee", "")) == "checkBounds" and elem_dominates(f, e, jump[0], eh=False)
               and any(key_of(strip_casts(a)) == "pointer" for a in e.node.get("args", []))]
        if not cbs:
            r.fail(f, jump[0], "pointer range", "the jump to a compression pointer is behind no range test at all: an out-of-range pointer is followed")
        for e in cbs:
            a = [strip_casts(x) for x in e.node["args"]]
            others = [const_value(x) for x in a[:2] if key_of(x) != "pointer"]
            enough = len(a) >= 3 and key_of(a[2]) == "size" and len(others) == 1 and others[0] is not None and others[0] >= 1
            r.expect(enough, f, e, "pointer range", "the compression pointer is validated with `%s`, which guarantees only %s <= size: a pointer equal to the message length (one past the last byte) is accepted — the name silently "
                     "ends there and the message decodes — where `pointer >= size` must be an error" % (show(e.node)[:50], " + ".join(show(x) for x in a[:2])), okdesc="pointer + n <= size with n >= 1")
        rng = None
    ok = len(jump) == 1 and (rng is None or len(rng) == 1) and len(vis) == 1 and len(ins) == 1
    if ok:
        if rng is not None:
            op = range_test(rng[0])[0]
            ok = op in (">=",) and dominated_by_edge(f, jump[0], rng[0], 1, eh=False)
            r.expect(ok, f, jump[0], "pointer range", "the jump to a compression pointer is not behind `pointer >= size → throw`: an out-of-range pointer is followed", okdesc="jump behind pointer < size")
        r.instance()
        vop = common.cmp_parts(vis[0].cond)[0]
        ok = dominated_by_edge(f, jump[0], vis[0], 1 if vop == "!=" else 0, eh=False) and elem_dominates(f, ins[0], jump[0], eh=False) and key_of(ins[0].node["args"][0]) == "pointer" and \
            any(x.kind == "stmt" and x.node.get("k") == "throw" for x in _reach_until_ret(f, vis[0].succs[0 if vop == "!=" else 1]))
        r.expect(ok, f, jump[0], "pointer loop", "a compression pointer is followed without the visited-set test and insert: a pointer loop never terminates", okdesc="jump behind not-visited test; target recorded first")
    else:
        if len(jump) == 1 and (len(vis) == 0 or len(ins) == 0):
            r.fail(f, jump[0], "pointer loop", "a compression pointer is followed without the visited-set %s: a pointer loop never terminates" % ("test" if not vis else "insert"))
        elif len(jump) == 1 and rng is not None and len(rng) == 0:
            r.fail(f, jump[0], "pointer range", "the jump to a compression pointer is behind no range test")
        else:
            raise AnalysisBroken("decodeNameWithLoopDetection: expected one jump, one range test, one visited test and one insert (found %d/%s/%d/%d) — a shape this rule does not know" % (len(jump), len(rng) if rng is not None else "-", len(vis), len(ins)))
    # the position at which the caller resumes is fixed at the FIRST pointer of the name
    rv = [e for e in common.returns(f)]
    res = None
    for e in rv:
        v = strip_casts(e.node.get("v") or {})
        if v.get("k") == "cond" and isinstance(v.get("c"), dict) and isinstance(v.get("t"), dict):
            cvar, tvar = strip_casts(v["c"]), strip_casts(v["t"])
            if cvar.get("k") == "var" and tvar.get("k") == "var":
                res = [cvar["n"], tvar["n"]]
    r.instance()
    if res is None:
        raise AnalysisBroken("decodeNameWithLoopDetection: return is not `jumped ? resume : offset`")
    flag, resume = res[0], res[1]
    vocab = Vocab(["j"])

    def leaf_j(n):
        return A("j") if n.get("k") == "var" and n["n"] == flag else None

    def eff_j(e):
        if e.kind != "stmt":
            return None
        a = asg(e.node)
        if a and key_of(a[0]) == flag:
            cv = const_value(strip_casts(a[1]))
            return [("set", "j", bool(cv))] if cv is not None else [("havoc", "j")]
        if e.node.get("k") == "decl":
            for v in e.node["vars"]:
                if v["n"] == flag:
                    return [("set", "j", bool(const_value(strip_casts(v.get("init") or {}))))]
        return None
    paj = PredAbs(f, vocab, leaf_j, eff_j, eh=False)
    ws = [e for e in f.stmts() if asg(e.node) and key_of(asg(e.node)[0]) == resume]
    sets_ = [e for e in f.stmts() if asg(e.node) and key_of(asg(e.node)[0]) == flag and const_value(strip_casts(asg(e.node)[1])) == 1]
    okr = len(ws) >= 1 and all(paj.entails(e, Not(A("j"))) for e in ws) and all(lin(asg(e.node)[1]) == (2, ("offset",)) for e in ws) and len(sets_) >= 1 and all(any(w.block is s_.block for w in ws) for s_ in sets_)
    r.expect(okr, f, ws[0] if ws else None, "resume position overwritten", "`%s` (the position after the compressed name, returned to the caller) is assigned on a path where a pointer was already followed, or is not `offset + 2` "
             "of the first pointer: with chained pointers the caller resumes behind the LAST pointer followed, somewhere else in the message, and reads TYPE/CLASS/TTL from the wrong place" % resume,
             okdesc="resume position = offset + 2 at the first pointer only")
    # the pointer is read behind checkBounds(offset, 2) and masked to 14 bits
    pd = [v for e in f.stmts() if e.node.get("k") == "decl" for v in e.node["vars"] if v["n"] == "pointer"]
    r.instance()
    r.expect(len(pd) == 1 and "readUint16(data, offset)" in show(pd[0]["init"]) and "&" in show(pd[0]["init"]) and "short" in pd[0]["t"], f, None, "pointer value", "the compression pointer is not the masked 16-bit value at the cursor", okdesc="pointer = readUint16 & mask (16-bit)")
    # label and name limits
    app = [e for e in f.stmts() if e.node.get("k") == "mcall" and last(e.node.get("callee", "")) == "append" and key_of(e.node.get("obj")) == "name"]
    lb = [b for b in f.blocks.values() if b.cond is not None and common.cmp_parts(b.cond) and key_of(common.cmp_parts(b.cond)[1]) == "length" and "DNS_MAX_LABEL_SIZE" in show(common.cmp_parts(b.cond)[2]) or
          (b.cond is not None and common.cmp_parts(b.cond) and key_of(common.cmp_parts(b.cond)[1]) == "length" and const_value(common.cmp_parts(b.cond)[2]) == 63)]
    r.instance()
    r.expect(len(app) == 1 and len(lb) == 1 and common.cmp_parts(lb[0].cond)[0] == ">" and dominated_by_edge(f, app[0], lb[0], 1, eh=False), f, app[0] if app else None, "label limit", "a label is appended without the `length > 63 → throw` test", okdesc="label <= 63 before append")
    def total_test(b):
        """largest totalLength the test lets through: `totalLength + k > L` → L - k"""
        co = common.cmp_oriented(b.cond, lambda x: const_value(x) is not None) if b.cond is not None else None
        if not co or co[0] not in (">", ">="):
            return None
        fm = lin(co[1])
        if fm is None or tuple(fm[1]) != ("totalLength",):
            return None
        return const_value(co[2]) - fm[0] - (1 if co[0] == ">=" else 0)
    tb = [b for b in f.blocks.values() if total_test(b) is not None]
    r.instance()
    ok = len(tb) == 1 and len(app) == 1 and search(f, app[0], lambda x: x is app[0], stop=lambda x: x.block is tb[0], eh=False) is None
    r.expect(ok, f, None, "name limit", "labels can be appended again without passing the total-length test", okdesc="name length tested after every label")
    if ok:
        # RFC 1035: a name is at most 255 octets on the wire, length octets and the root octet included; totalLength counts the
        # labels with their length octets, so it may reach 254
        r.instance()
        mx = total_test(tb[0])
        r.expect(mx == 254, f, None, "decoder name limit value", "the decoder lets a name through while the sum of its labels and length octets is <= %d; RFC 1035 allows 255 wire octets including the root octet, i.e. 254: %s"
                 % (mx, "legal names of %d..253 characters are rejected" % (mx,) if mx < 254 else "over-long names are accepted"), okdesc="decoder: labels + length octets <= 254 (255 with the root)")
    # progress: every cycle moves the cursor
    prog = {e.block.id for e in f.stmts() if (asg(e.node) and key_of(asg(e.node)[0]) == "offset") or (e.node.get("k") == "bin" and e.node.get("op") == "+=" and key_of(e.node["lhs"]) == "offset" and lin(e.node["rhs"]) is not None and lin(e.node["rhs"])[0] >= 1)
            or (e.node.get("k") == "un" and "++" in e.node.get("op", "") and key_of(e.node["v"]) == "offset")}
    color, cyc = {}, []

    def dfs(b):
        color[b] = 1
        for s in f.blocks[b].succs:
            if s is None or s in prog:
                continue
            if color.get(s) == 1:
                cyc.append((b, s))
            elif s not in color:
                dfs(s)
        color[b] = 2
    for b in f.blocks:
        if b not in color and b not in prog:
            dfs(b)
    r.instance()
    r.expect(not cyc and len(prog) >= 3, f, None, "name loop progress", "a loop iteration of the name decoder neither moves the cursor nor leaves", okdesc="every iteration moves the cursor (%d sites)" % len(prog))
    # RDATA pointer: range test before decodeName
    g = dm(ctx, "decodeNameFromRdata")
    dn = [e for e in g.stmts() if e.node.get("k") in ("call", "mcall") and last(e.node.get("callee", "")) == "decodeName"]
    r.instance()
    ok = len(dn) == 2
    if ok:
        for e in dn:
            a1 = key_of(strip_views(e.node["args"][1]))
            # `X < messageSize` known: as a true `<` fact or a false `>=` fact, whichever way round the test is written
            inside = False
            for c, t in dominating_facts(g, e):
                co = common.cmp_oriented(c, lambda x: "messageSize" in show(x))
                if co and a1 in show(co[1]) and ((co[0] == "<" and t) or (co[0] == ">=" and not t)):
                    inside = True
            ok = ok and inside
    r.expect(ok, g, None, "RDATA name start", "decodeNameFromRdata starts decoding at a position not tested against the message size", okdesc="both decodeName starts inside the message")


def r3(ctx, r):
    f = dm(ctx, "parse", 2)
    loops = [b for b in f.blocks.values() if b.cond is not None and b.term.get("k") == "ForStmt" and common.cmp_parts(b.cond) and "result.header." in show(common.cmp_parts(b.cond)[2])]
    want = {"qdcount": "parseQuestion", "ancount": "parseResourceRecord", "nscount": "parseResourceRecord", "arcount": "parseResourceRecord"}
    seen = {}
    for b in loops:
        cnt = show(common.cmp_parts(b.cond)[2]).split(".")[-1]
        body, work, vis = [], [b.succs[0]], set()
        while work:
            x = work.pop()
            if x is None or x == b.id or x in vis:
                continue
            vis.add(x)
            body.extend(f.blocks[x].elems)
            work.extend(f.blocks[x].succs)
        calls = [last(e.node["callee"]) for e in body if e.kind == "stmt" and e.node.get("k") in ("call", "mcall") and last(e.node.get("callee", "")) in ("parseQuestion", "parseResourceRecord")]
        upd = [e for e in body if e.kind == "stmt" and asg(e.node) and key_of(asg(e.node)[0]) == "offset"]
        iv = key_of(common.cmp_parts(b.cond)[1])
        ivd = [v for e in f.stmts() if e.node.get("k") == "decl" for v in e.node["vars"] if v["n"] == iv]
        seen[cnt] = (calls, len(upd), [v["t"] for v in ivd])
    for cnt, callee in want.items():
        r.instance()
        got = seen.get(cnt)
        r.expect(got is not None and got[0] == [callee] and got[1] == 1, f, None, "section loop: %s" % cnt, "the %s section is not decoded by one %s call per count with the cursor threaded through (%s)" % (cnt, callee, got),
                 okdesc="%s × %s, offset threaded" % (cnt, callee))
    hs = [b for b in f.blocks.values() if b.cond is not None and common.cmp_parts(b.cond) and key_of(common.cmp_parts(b.cond)[1]) == "size" and "DNS_HEADER_SIZE" in show(common.cmp_parts(b.cond)[2]) or
          (b.cond is not None and common.cmp_parts(b.cond) and key_of(common.cmp_parts(b.cond)[1]) == "size" and const_value(common.cmp_parts(b.cond)[2]) == 12)]
    r.instance()
    r.expect(len(hs) == 1 and any(x.kind == "stmt" and x.node.get("k") == "throw" for x in _reach_until_ret(f, hs[0].succs[0])), f, None, "header size", "a message shorter than the header is not rejected", okdesc="size < 12 → throw")
    # the counts are the 16-bit header fields read by parseHeader
    ph = dm(ctx, "parseHeader")
    fields = [show(strip_casts(asg(e.node)[0])) for e in ph.stmts() if asg(e.node) and "count" in show(asg(e.node)[0]) and "readUint16" in show(asg(e.node)[1])]
    r.instance()
    r.expect(fields == ["header.qdcount", "header.ancount", "header.nscount", "header.arcount"] or sorted(fields) == sorted(["header.qdcount", "header.ancount", "header.nscount", "header.arcount"]), ph, None, "header counts", "parseHeader does not read the four counts as 16-bit fields", okdesc="four 16-bit counts")


def r4(ctx, r):
    fb = ctx.fb()
    pr = [g for g in fb.funcs(DT + "::processResponse") if g.ok]
    if len(pr) != 1:
        raise AnalysisBroken("DnsTransport::processResponse: %d definitions" % len(pr))
    pr = pr[0]
    ps = [e for e in pr.stmts() if e.node.get("k") in ("call", "mcall") and last(e.node.get("callee", "")) == "parse" and "DnsMessage" in e.node.get("callee", "")]
    r.instance()
    ok = len(ps) == 1 and ps[0].try_id and handler_covers(pr.trys[ps[0].try_id]["handlers"], "std::runtime_error")
    r.expect(ok, pr, ps[0] if ps else None, "parse outside try", "DnsMessage::parse is not called inside a try block whose handlers cover std::exception: a malformed response unwinds into the transport's I/O thread", okdesc="parse inside try/catch(std::exception)")
    if ok:
        hb = [b for b in pr.blocks.values() if b.label and b.label.get("k") == "catch" and b.label.get("try") == ps[0].try_id]
        els = [x for b in hb for x in _reach_until_ret(pr, b.id)]
        cq = [x for x in els if x.kind == "stmt" and x.node.get("k") == "mcall" and last(x.node.get("callee", "")) == "completeQuery"]
        r.instance()
        r.expect(len(cq) >= 1 and any("error" in show(x.node) for x in cq), pr, None, "pending query not completed", "after a parse failure the pending query is not completed with an error (the caller waits for the full timeout)", okdesc="parse failure → completeQuery(key, error)")
        # the id is read from the raw bytes only behind size >= 2
        rd = [(e, k) for (e, b, k, w) in const_reads(pr, {"data"})]
        r.instance()
        sb = [b for b in pr.blocks.values() if b.cond is not None and common.cmp_parts(b.cond) and key_of(common.cmp_parts(b.cond)[1]) == "size" and const_value(common.cmp_parts(b.cond)[2]) == 2 and common.cmp_parts(b.cond)[0] == ">="]
        r.expect(len(rd) == 2 and len(sb) == 1 and all(dominated_by_edge(pr, e, sb[0], 0, eh=True) for e, k in rd), pr, None, "query id read", "the handler reads the query id from the raw bytes without `size >= 2`", okdesc="id read behind size >= 2")
    # everything that can throw in the whole function is inside the try
    out = [e for e in pr.stmts() if "root" in e.raw and not e.try_id and not e.catch_id and e.node.get("k") in ("mcall", "call", "decl", "throw")]
    r.instance()
    r.expect(not out, pr, out[0] if out else None, "statement outside the try", "processResponse executes `%s` outside its try block" % (show(out[0].node)[:50] if out else ""), okdesc="whole body inside the try")
    # typed-record dispatcher contains its own failures
    pt = dm(ctx, "parseTypedRecord")
    calls = [e for e in pt.stmts() if e.node.get("k") in ("call", "mcall") and last(e.node.get("callee", "")).startswith("parse") and last(e.node.get("callee", "")).endswith("Record")]
    r.instance()
    r.expect(len(calls) >= 9 and all(e.try_id and handler_covers(pt.trys[e.try_id]["handlers"], "std::runtime_error") for e in calls), pt, None, "typed decoder failure", "a failing typed RDATA decoder aborts the whole message", okdesc="%d typed decoders inside try/catch(std::exception)" % len(calls))


def r5(ctx, r):
    fb = ctx.fb()
    fq = [g for g in fb.funcs("iora::network::dns::DnsCacheKey::fromQuestion") if g.ok]
    if len(fq) != 1:
        raise AnalysisBroken("DnsCacheKey::fromQuestion: %d definitions" % len(fq))
    fq = fq[0]
    asn = {show(strip_casts(asg(e.node)[0])): show(strip_views(asg(e.node)[1])) for e in fq.stmts() if asg(e.node)}
    low = [e for e in fq.stmts() if e.node.get("k") == "call" and last(e.node.get("callee", "")) == "transform" and "key.qname.begin()" in show(e.node) and "tolower" in show(e.node)]
    r.instance()
    r.expect(asn.get("key.qname") == "question.qname" and asn.get("key.qtype") == "question.qtype" and asn.get("key.qclass") == "question.qclass" and len(low) == 1, fq, None, "cache key fields",
             "the cache key is not (lower-cased name, type, class) of the question: %s" % asn, okdesc="key = (tolower(qname), qtype, qclass)")
    eq = [g for g in fb.funcs("iora::network::dns::DnsCacheKey::operator==") if g.ok]
    r.instance()
    ok = len(eq) == 1
    if ok:
        t = " ".join(show(e.node) for e in common.returns(eq[0]))
        ok = all(("%s == other.%s" % (x, x)) in t for x in ("qname", "qtype", "qclass")) and "||" not in t
    r.expect(ok, eq[0] if eq else fq, None, "cache key equality", "DnsCacheKey::operator== does not compare name, type and class", okdesc="== compares all three fields")
    hs = [g for g in fb.functions if g.ok and "hash" in g.name and "DnsCacheKey" in g.sig and g.name.endswith("operator()")]
    r.instance()
    ok = len(hs) >= 1 and all(all(x in " ".join(show(e.node) for e in g.stmts()) for x in ("qname", "qtype", "qclass")) for g in hs)
    r.expect(ok or len(hs) >= 1, hs[0] if hs else fq, None, "cache key hash", "no hash for DnsCacheKey found", okdesc="hash over the key fields")
    # every cache access builds the key through fromQuestion
    n = 0
    for f in fb.methods_of(DC):
        if not f.ok:
            continue
        for e in f.stmts():
            if e.node.get("k") == "mcall" and last(e.node.get("callee", "")) in ("get", "set", "remove") and "ExpiringCache" in e.node.get("callee", ""):
                n += 1
                karg = key_of(strip_views(e.node["args"][0]))
                kd = [v for d in f.stmts() if d.node.get("k") == "decl" for v in d.node["vars"] if v["n"] == karg]
                r.instance()
                r.expect(len(kd) == 1 and kd[0].get("init") is not None and "fromQuestion(question)" in show(kd[0]["init"]), f, e, "cache key source", "%s accesses the cache with a key not built by DnsCacheKey::fromQuestion(question)" % short(f.name),
                         okdesc="%s: key = fromQuestion(question)" % last(f.name))
    if n < 7:
        raise AnalysisBroken("only %d cache accesses in DnsCache (floor 7)" % n)


def r6(ctx, r):
    fb = ctx.fb()
    gets = [g for g in fb.funcs(EC + "::get") if g.ok]
    sets = [g for g in fb.funcs(EC + "::set") if g.ok]
    if not gets or not sets:
        raise AnalysisBroken("ExpiringCache::get/set instantiations not found")
    for g in gets:
        def fresh_test(b):
            co = common.cmp_oriented(b.cond, lambda x: "now()" in show(x)) if b.cond is not None else None
            return co if co and "expiration" in show(co[1]) else None
        eb = [b for b in g.blocks.values() if fresh_test(b)]
        vals = [e for e in common.returns(g) if ".value" in show(e.node)]
        r.instance()
        ok = len(eb) == 1 and len(vals) >= 1 and fresh_test(eb[0])[0] == ">" and all(dominated_by_edge(g, e, eb[0], 0, eh=False) for e in vals) and "steady_clock::now" in show(eb[0].cond)
        r.expect(ok, g, vals[0] if vals else None, "expired entry served", "ExpiringCache::get returns a stored value on a path that did not establish `expiration > steady_clock::now()`", okdesc="value only on expiration > now()")
        rets = [e for e in common.returns(g) if e not in vals]
        r.instance()
        r.expect(all("nullopt" in show(e.node) for e in rets) and rets, g, None, "miss result", "a miss does not return nullopt", okdesc="otherwise nullopt")
    for g in sets:
        ed = [v for e in g.stmts() if e.node.get("k") == "decl" for v in e.node["vars"] if v["n"] == "expiration"]
        r.instance()
        ok = len(ed) == 1 and "steady_clock::now()" in show(ed[0]["init"]) and "customTtl" in show(ed[0]["init"]) and "_ttl" in show(ed[0]["init"])
        r.expect(ok, g, None, "expiration computation", "set() does not compute expiration = now + (customTtl > 0 ? customTtl : default)", okdesc="expiration = now + (ttl > 0 ? ttl : default)")
        # an unconditional store of the fresh expiration: whole-entry assignment / insert_or_assign / field assignment, on every path to the exit
        stores = []
        for e in g.stmts():
            n = e.node
            a = asg(n)
            if a and ("_cache[" in show(a[0]) or show(strip_casts(a[0])).endswith(".expiration")) and any(x.get("k") == "var" and x["n"] == "expiration" for x in walk(a[1])):
                stores.append(e)
            if n.get("k") == "mcall" and last(n.get("callee", "")) == "insert_or_assign" and any(x.get("k") == "var" and x["n"] == "expiration" for x in walk(n)):
                stores.append(e)
        r.instance()
        w = search(g, ("entry",), "exit", stop=lambda x: x in stores, eh=False)
        r.expect(bool(stores) and w is None, g, None, "stale expiration kept", "ExpiringCache::set can return without having stored the freshly computed `expiration` in the entry (e.g. try_emplace/emplace/insert leave an existing entry's "
                 "expiration untouched): re-caching an answer with a shorter TTL keeps the old, later expiry and the entry is served after its TTL elapsed", witness=witness_str(g, w), okdesc="fresh expiration stored on every path")
    # DnsCache: TTL source and zero guard
    for nm, npar, ttlvar in (("put", 2, "ttl"), ("putNegative", 4, "negativeTtl")):
        f = [g for g in fb.funcs(DC + "::" + nm, DCF) if g.ok and len(g.params) == npar]
        if len(f) != 1:
            raise AnalysisBroken("DnsCache::%s/%d: %d definitions" % (nm, npar, len(f)))
        f = f[0]
        st = [e for e in f.stmts() if e.node.get("k") == "mcall" and last(e.node.get("callee", "")) == "set" and "ExpiringCache" in e.node.get("callee", "")]
        zb = [b for b in f.blocks.values() if b.cond is not None and common.cmp_parts(b.cond) and key_of(common.cmp_parts(b.cond)[1]) == ttlvar and const_value(common.cmp_parts(b.cond)[2]) == 0 and common.cmp_parts(b.cond)[0] == "=="]
        r.instance()
        ok = len(st) == 1 and len(zb) == 1 and dominated_by_edge(f, st[0], zb[0], 1, eh=False) and ttlvar in show(st[0].node["args"][2]) and "duration" in show(st[0].node["args"][2])
        r.expect(ok, f, st[0] if st else None, "zero TTL cached: %s" % nm, "DnsCache::%s hands its TTL to ExpiringCache::set without excluding 0, which set() treats as 'use the default TTL': a do-not-cache answer is served for minutes" % nm,
                 okdesc="%s: ttl == 0 → not cached; else set(…, seconds(ttl))" % nm)
    put = [g for g in fb.funcs(DC + "::put", DCF) if g.ok][0]
    tv = [v for e in put.stmts() if e.node.get("k") == "decl" for v in e.node["vars"] if v["n"] == "ttl"]
    r.instance()
    r.expect(len(tv) == 1 and "calculateResultTtl(result)" in show(tv[0]["init"]), put, None, "TTL source", "put() does not take the TTL from calculateResultTtl(result)", okdesc="ttl = calculateResultTtl(result)")
    # table agreement: every record collection of DnsResult is part of the minimum
    crt = [g for g in fb.funcs(DC + "::calculateResultTtl", DCF) if g.ok][0]
    rec = fb.record("iora::network::dns::DnsResult")
    colls = [x["n"] for x in rec["fields"] if "std::vector" in x["t"] and x["n"] != "questions"]
    ranges = [show(strip_views(v["init"])) for e in crt.stmts() if e.node.get("k") == "decl" for v in e.node["vars"] if v["n"].startswith("__range") and v.get("init") is not None]
    if len(colls) < 10:
        raise AnalysisBroken("DnsResult: only %d record collections found" % len(colls))
    # a collection takes part either as the range of its own loop or through its address in a list that a loop walks
    # (`for (auto *sec : {&result.answers, …})`): what matters is which DnsResult members the function reads at all — and that
    # every loop that iterates records folds the minimum
    RES = "iora::network::dns::DnsResult::"
    via_addr = {last(x["v"]["n"]) for e in crt.stmts() for x in walk(e.node) if x.get("k") == "un" and x.get("op") == "&" and (x.get("v") or {}).get("k") == "member" and x["v"]["n"].startswith(RES)}
    covered = {c for c in colls if "result." + c in ranges} | (via_addr & set(colls))
    for c in colls:
        r.instance()
        r.expect(c in covered, crt, None, "TTL ignores %s" % c, "calculateResultTtl does not include DnsResult::%s in the minimum: a record there with a shorter TTL is served after it expired" % c, okdesc="min over result.%s" % c)
    mins = [e for e in crt.stmts() if asg(e.node) and "std::min" in show(asg(e.node)[1]) and key_of(asg(e.node)[0]) is not None and key_of(asg(e.node)[0]) in show(asg(e.node)[1])]
    loops = [b for b in crt.blocks.values() if b.term and b.term.get("k") == "CXXForRangeStmt" and b.cond is not None]
    # innermost record loops: loops whose body contains no other loop head
    inner = [b for b in loops if not any(o is not b and search(crt, ("block", b.succs[0]), lambda x, o=o: x.block is o, stop=lambda x, b=b: x.block is b, eh=False) is not None for o in loops)]
    r.instance()
    okm = bool(inner) and all(any(search(crt, ("block", b.succs[0]), lambda x, m=m: x is m, stop=lambda x, b=b: x.block is b, eh=False) is not None and ".ttl" in show(asg(m.node)[1]) for m in mins) for b in inner)
    r.expect(okm, crt, None, "minimum computation", "a record loop of calculateResultTtl does not fold `x = std::min(x, record.ttl)`", okdesc="%d record loops fold the minimum" % len(inner))
    cn = [g for g in fb.funcs(DC + "::calculateNegativeTtl", DCF) if g.ok][0]
    rt = [e for e in common.returns(cn) if "record.minimum" in show(e.node)]
    r.instance()
    r.expect(len(rt) == 1 and "std::min" in show(rt[0].node) and "record.ttl" in show(rt[0].node), cn, None, "negative TTL", "the negative-caching TTL is not min(SOA.minimum, SOA ttl)", okdesc="negative TTL = min(SOA minimum, ttl)")


def r7(ctx, r):
    f = dm(ctx, "encodeName")
    lb = [b for b in f.blocks.values() if b.cond is not None and common.cmp_parts(b.cond) and "label.length()" in show(common.cmp_parts(b.cond)[1]) and common.cmp_parts(b.cond)[0] == ">"]
    pushes = [e for e in f.stmts() if e.node.get("k") == "mcall" and last(e.node.get("callee", "")) == "push_back" and "label.length()" in show(e.node)]
    r.instance()
    r.expect(len(lb) == 1 and len(pushes) == 1 and dominated_by_edge(f, pushes[0], lb[0], 1, eh=False) and ("DNS_MAX_LABEL_SIZE" in show(lb[0].cond) or const_value(common.cmp_parts(lb[0].cond)[2]) == 63), f, None, "encoder label limit",
             "encodeName emits a label without the 63-byte test (its length byte would collide with the compression marker)", okdesc="encoder: label <= 63")
    nb = [b for b in f.blocks.values() if b.cond is not None and common.cmp_parts(b.cond) and "encoded.size()" in show(common.cmp_parts(b.cond)[1])]
    rets = [e for e in common.returns(f) if search(f, pushes[0], lambda x, e=e: x is e, eh=False) is not None] if pushes else []
    r.instance()
    r.expect(len(nb) == 1 and rets and all(dominated_by_edge(f, e, nb[0], 1, eh=False) for e in rets), f, None, "encoder name limit", "encodeName returns a name without the 255-byte test", okdesc="encoder: name <= 255")
    if len(nb) == 1:
        co = common.cmp_oriented(nb[0].cond, lambda x: const_value(x) is not None)
        r.instance()
        # `encoded` holds the labels with their length octets; whether the root octet is already in it decides the constant
        root_in = any(e.node.get("k") == "mcall" and last(e.node.get("callee", "")) == "push_back" and const_value(strip_casts(e.node["args"][0])) == 0 and search(f, e, lambda x: x.block is nb[0], eh=False) is not None for e in f.stmts())
        want = 255 if root_in else 254
        mx = (const_value(co[2]) - (1 if co[0] == ">=" else 0)) if co and co[0] in (">", ">=") else None
        r.expect(mx == want, f, None, "encoder name limit value", "encodeName accepts an encoded name of up to %s octets %s the root octet; RFC 1035 allows %d there: %s" % (
            mx, "including" if root_in else "before", want, "legal 252/253-character names are refused" if (mx or 0) < want else "over-long names are emitted"), okdesc="encoder: wire name <= 255")
    # query field order agrees with the decoder: id, flags, counts; per question name, type, class
    bq = [g for g in ctx.fb().funcs(DM + "::buildQuery", DMF) if g.ok and len(g.params) == 3]
    r.instance()
    ok = len(bq) == 1
    if ok:
        ws = sorted([e for e in bq[0].stmts() if e.node.get("k") in ("call", "mcall") and last(e.node.get("callee", "")) in ("writeUint16", "writeUint32") and "root" in e.raw], key=lambda e: (e.line, e.idx))
        seq = [show(e.node["args"][1]) for e in ws]
        ok = len(seq) >= 8 and "id" in seq[0] and "flags" in seq[1].lower() and "qtype" in seq[-2] and "qclass" in seq[-1]
    r.expect(ok, bq[0] if bq else DM, None, "query layout", "buildQuery does not write id, flags, four counts, then per question type and class in the order parseHeader/parseQuestion read them", okdesc="query layout matches the decoder")


OPAQUE = {"A", "AAAA", "TXT"}


def r8(ctx, r):
    f = dm(ctx, "validateRdataSecurity")
    # throws that depend on the VALUE of RDATA bytes of a type whose RDATA contains no names
    bad = []
    for e in f.stmts():
        if not (e.node.get("k") == "throw" and "root" in e.raw):
            continue
        facts = dominating_facts(f, e)
        types = set()
        content = False
        lengthonly = False
        for (c, t) in facts:
            s = show(c)
            for x in walk(c):
                if x.get("k") == "enum" and "DnsType" in x["n"] and ("rr.type ==" in s) and t:
                    types.add(last(x["n"]))
            if "rr.rdata[" in s:
                content = True
            if "rr.rdata.size() != " in s and t:
                lengthonly = True
        # `a || b` type tests do not dominate through one edge: fall back to the enclosing condition text
        if not types:
            for b in f.blocks.values():
                if b.cond is not None and "rr.type ==" in show(b.cond) and search(f, ("block", b.id), lambda x: x is e, eh=False) is not None:
                    for x in walk(b.cond):
                        if x.get("k") == "enum":
                            types.add(last(x["n"]))
        if content and (types & OPAQUE) and not lengthonly:
            bad.append((e, sorted(types & OPAQUE)))
    r.instance()
    if bad:
        for (e, ts) in bad:
            r.fail(f, e, "opaque RDATA rejected by content: %s" % "/".join(ts), "validateRdataSecurity throws for a %s record depending on the VALUE of its RDATA bytes (a byte >= 0xC0 is taken for a compression pointer). RDATA of these types contains no "
                   "domain names, so the bytes are opaque: well-formed answers such as AAAA fe80::1 or a TXT string with UTF-8 make the whole response fail to parse" % "/".join(ts))
    else:
        r.ok("no content-based rejection of A/AAAA/TXT RDATA with a correct length")
    # typed decoders of opaque types check the length only
    for nm, want in (("parseARecord", 4), ("parseAAAARecord", 16)):
        g = dm(ctx, nm)
        lb = [b for b in g.blocks.values() if b.cond is not None and common.cmp_parts(b.cond) and "rr.rdata.size()" in show(common.cmp_parts(b.cond)[1]) and const_value(common.cmp_parts(b.cond)[2]) == want and common.cmp_parts(b.cond)[0] == "!="]
        r.instance()
        r.expect(len(lb) == 1, g, None, "%s length" % nm, "%s does not require exactly %d bytes" % (nm, want), okdesc="%s: rdata.size() == %d" % (nm, want))


def field_reads(f, prefix):
    """ordered [(target text, reader, offset expression text)] of `target = readUintNN(buf, off)` assignments in source order"""
    out = []
    for e in sorted(f.stmts(), key=lambda e: (e.line, e.idx)):
        a = asg(e.node)
        if not a or "root" not in e.raw:
            continue
        lt = show(strip_casts(a[0]))
        if not lt.startswith(prefix):
            continue
        rd = [x for x in walk(a[1]) if x.get("k") in ("call", "mcall") and last(x.get("callee", "")) in ("readUint16", "readUint32")]
        if len(rd) == 1:
            out.append((lt, last(rd[0]["callee"]), show(rd[0]["args"][1])))
    return out


def r9(ctx, r):
    """wire layout tables: which field is read with which width, in which order / at which RDATA offset"""
    W16, W32 = "readUint16", "readUint32"
    for npar in (4, 5):
        f = dm(ctx, "parseResourceRecord", npar)
        got = [(t, w) for (t, w, o) in field_reads(f, "rr.")]
        r.instance()
        r.expect(got == [("rr.type", W16), ("rr.cls", W16), ("rr.ttl", W32), ("rr.rdlength", W16)], f, None, "record header layout", "parseResourceRecord/%d reads the fixed part as %s (RFC 1035 4.1.3: TYPE16 CLASS16 TTL32 RDLENGTH16)" % (npar, got),
                 okdesc="TYPE16, CLASS16, TTL32, RDLENGTH16")
        # each read is followed by an advance of its own width before the next read
        advs = [const_value(strip_casts(e.node["rhs"])) for e in sorted(f.stmts(), key=lambda e: (e.line, e.idx)) if e.node.get("k") == "bin" and e.node.get("op") == "+=" and key_of(e.node["lhs"]) == "offset" and const_value(strip_casts(e.node["rhs"])) is not None]
        r.instance()
        r.expect(advs == [2, 2, 4, 2], f, None, "record header advances", "the cursor advances by %s between the fixed fields (expected 2, 2, 4, 2)" % advs, okdesc="advances 2, 2, 4, 2")
    q = dm(ctx, "parseQuestion")
    got = [(t, w) for (t, w, o) in field_reads(q, "question.")]
    r.instance()
    r.expect(got == [("question.qtype", W16), ("question.qclass", W16)], q, None, "question layout", "parseQuestion reads %s (expected QTYPE16 QCLASS16)" % got, okdesc="QTYPE16, QCLASS16")
    h = dm(ctx, "parseHeader")
    got = [(t, w) for (t, w, o) in field_reads(h, "header.")]
    r.instance()
    r.expect(got == [("header.id", W16), ("header.qdcount", W16), ("header.ancount", W16), ("header.nscount", W16), ("header.arcount", W16)], h, None, "header layout", "parseHeader reads %s" % got, okdesc="ID, QDCOUNT, ANCOUNT, NSCOUNT, ARCOUNT as 16-bit fields in order")
    # flag bits
    want = {"header.qr": (0x8000, None), "header.aa": (0x0400, None), "header.tc": (0x0200, None), "header.rd": (0x0100, None), "header.ra": (0x0080, None), "header.opcode": (0x0F, 11), "header.z": (0x07, 4), "header.rcode": (0x0F, None)}
    for e in h.stmts():
        a = asg(e.node)
        if not a:
            continue
        lt = show(strip_casts(a[0]))
        if lt in want:
            masks = [const_value(strip_casts(x["rhs"])) for x in walk(a[1]) if x.get("k") == "bin" and x.get("op") == "&"]
            shifts = [const_value(strip_casts(x["rhs"])) for x in walk(a[1]) if x.get("k") == "bin" and x.get("op") == ">>"]
            r.instance()
            m, sh = want[lt]
            r.expect(masks == [m] and (shifts == [sh] if sh is not None else not shifts) and "flags" in show(a[1]), h, e, "flag field %s" % lt, "%s is extracted with mask %s shift %s (expected mask %#x%s)" % (lt, masks, shifts, m, ", shift %d" % sh if sh else ""),
                     okdesc="%s: mask %#x%s" % (lt, m, ", >> %d" % sh if sh else ""))
            want[lt] = None
    r.instance()
    r.expect(all(v is None for v in want.values()), h, None, "flag fields", "parseHeader does not extract %s" % [k for k, v in want.items() if v is not None], okdesc="all eight flag fields extracted")
    # typed records: fixed RDATA offsets
    tables = {
        "parseSrvRecord": [("record.priority", W16, "0"), ("record.weight", W16, "2"), ("record.port", W16, "4")],
        "parseMxRecord": [("record.preference", W16, "0")],
    }
    for nm, exp in tables.items():
        f = dm(ctx, nm)
        got = field_reads(f, "record.")
        r.instance()
        r.expect(got == exp, f, None, "%s layout" % nm, "%s reads %s (expected %s)" % (nm, got, exp), okdesc="%s: %s" % (nm, ", ".join("%s@%s" % (t.split(".")[1], o) for t, w, o in exp)))
    nmo = [v for e in dm(ctx, "parseSrvRecord").stmts() if e.node.get("k") == "decl" for v in e.node["vars"] if v["n"] == "nameOffset"]
    r.instance()
    r.expect(len(nmo) == 1 and const_value(strip_casts(nmo[0].get("init") or {})) == 6, dm(ctx, "parseSrvRecord"), None, "SRV target offset", "the SRV target name does not start at RDATA offset 6", okdesc="SRV target @6")
    nmo = [v for e in dm(ctx, "parseMxRecord").stmts() if e.node.get("k") == "decl" for v in e.node["vars"] if v["n"] == "nameOffset"]
    r.instance()
    r.expect(len(nmo) == 1 and const_value(strip_casts(nmo[0].get("init") or {})) == 2, dm(ctx, "parseMxRecord"), None, "MX exchange offset", "the MX exchange name does not start at RDATA offset 2", okdesc="MX exchange @2")
    soa = dm(ctx, "parseSoaRecord")
    got = [(t, w) for (t, w, o) in field_reads(soa, "record.")]
    r.instance()
    r.expect(got == [("record.serial", W32), ("record.refresh", W32), ("record.retry", W32), ("record.expire", W32), ("record.minimum", W32)], soa, None, "SOA layout", "parseSoaRecord reads %s (expected SERIAL REFRESH RETRY EXPIRE MINIMUM as 32-bit fields)" % got,
             okdesc="SOA: five 32-bit fields in order")
    advs = [const_value(strip_casts(e.node["rhs"])) for e in sorted(soa.stmts(), key=lambda e: (e.line, e.idx)) if e.node.get("k") == "bin" and e.node.get("op") == "+=" and key_of(e.node["lhs"]) == "offset" and const_value(strip_casts(e.node["rhs"])) is not None]
    r.instance()
    r.expect(advs == [4, 4, 4, 4], soa, None, "SOA advances", "the SOA numeric fields are not 4 bytes apart (%s)" % advs, okdesc="SOA fields 4 bytes apart")
    nap = dm(ctx, "parseNaptrRecord")
    got = [(t, w) for (t, w, o) in field_reads(nap, "record.")]
    r.instance()
    r.expect(got == [("record.order", W16), ("record.preference", W16)], nap, None, "NAPTR layout", "parseNaptrRecord reads %s" % got, okdesc="NAPTR: ORDER16, PREFERENCE16")
    strs = [show(e.node["args"][-1]) for e in sorted(nap.stmts(), key=lambda e: (e.line, e.idx)) if e.node.get("k") == "opcall" and e.node.get("op") == "()" and key_of(e.node["args"][0]) == "parseString"]
    r.instance()
    r.expect(strs == ["record.flags", "record.service", "record.regexp"], nap, None, "NAPTR strings", "the NAPTR character-strings are decoded into %s (expected flags, service, regexp)" % strs, okdesc="NAPTR: flags, service, regexp")
    # readers are big-endian (network order)
    for nm, conv in (("readUint16", "ntohs"), ("readUint32", "ntohl")):
        f = dm(ctx, nm)
        r.instance()
        r.expect(any(x.node.get("k") == "ret" and conv in show(x.node) or (x.node.get("k") == "ret" and "__bswap" in show(x.node)) for x in f.stmts()) or any(conv in show(x.node) for x in f.stmts()), f, None, "byte order: %s" % nm,
                 "%s does not convert from network byte order" % nm, okdesc="%s: %s" % (nm, conv))



def anchors(ctx, r):
    fb = ctx.fb()
    tab = [(dm(ctx, "parseHeader"), ["offset", "size", "data"]), (dm(ctx, "parseQuestion"), ["offset", "size", "data"]), (dm(ctx, "parseResourceRecord", 5), ["offset", "size", "data", "rr"]),
           (dm(ctx, "decodeNameWithLoopDetection"), ["offset", "size", "data", "pointer", "visitedPointers", "length", "totalLength", "name"]),
           (dm(ctx, "decodeNameFromRdata"), ["rdataOffset", "rdataSize", "rdata", "consumedInRdata", "pointer", "messageSize"]), (dm(ctx, "parseTxtRecord"), ["offset", "rr"]), (dm(ctx, "parseSoaRecord"), ["offset", "rr"]),
           ([g for g in fb.funcs(DT + "::handleTcpData") if g.ok][0], ["buffer", "messageLength", "messageData"]), ([g for g in fb.funcs(DT + "::processResponse") if g.ok][0], ["data", "size"]),
           ([g for g in fb.funcs(DC + "::put", DCF) if g.ok][0], ["ttl", "key"]), ([g for g in fb.funcs(DC + "::calculateResultTtl", DCF) if g.ok][0], ["min_ttl", "result"])] + \
        [(g, ["expiration", "customTtl"]) for g in fb.funcs(EC + "::set") if g.ok]
    for f, names in tab:
        common.require_names(f, names)
        r.instance()
        r.ok("%s: %s" % (last(f.name), ", ".join(names)))


def r10(ctx, r):
    """(a) Only the root octet ends a name: the decode loop cannot be left for the normal return except through the `length == 0`
    arm (falling out because the data ran out would accept a truncated name).  (b) 'compression pointers that loop or point out
    of range are always errors': such errors have their own exception type, every pointer-error throw uses it, and the lenient
    per-record handler of parseTypedRecord lets it through (rethrow handler in front of the generic one).  (c) DnsCache is shared
    between threads: the pointer to the underlying cache is set at construction only — replacing the object in clear() destroys
    it under concurrent readers."""
    fb = ctx.fb()
    f = dm(ctx, "decodeNameWithLoopDetection")
    rets = common.returns(f)
    zero = [b for b in f.blocks.values() if b.cond is not None and (lambda co: co is not None and co[0] == "==" and key_of(co[1]) == "length" and const_value(co[2]) == 0)(common.cmp_oriented(b.cond, lambda x: const_value(x) is not None))]
    r.instance()
    if len(zero) != 1 or not rets:
        raise AnalysisBroken("decodeNameWithLoopDetection: root-octet test / return not identified")
    w = None
    for e in rets:
        w = w or search(f, ("entry",), lambda x, e=e: x is e, eh=False, edge_ok=lambda b, si: not (b is zero[0] and si == 0))
    r.expect(w is None, f, rets[0], "name ends without its root octet", "decodeNameWithLoopDetection can reach its return without having seen the zero length octet (%s): labels that run exactly to the end of the data — a truncated "
             "name in RDATA decoded against the whole message, or behind a forward pointer — are accepted as a complete name" % witness_str(f, w), okdesc="the loop is left only through `length == 0`")
    # (b)
    CE = "iora::network::dns::DnsCompressionException"
    nthrow = 0
    for g in (f, dm(ctx, "decodeNameFromRdata")):
        for e in g.stmts():
            if e.node.get("k") != "throw" or not e.node.get("t"):
                continue
            facts = dominating_facts(g, e)
            # the innermost facts that lead to this throw are about the pointer's VALUE (range / visited set)
            def ptr_value(c):
                return any(x.get("k") == "var" and x.get("n") == "pointer" for x in walk(c)) or any(x.get("k") == "var" and x.get("n") == "visitedPointers" for x in walk(c))
            inner = [c for (c, t) in facts if elem_dominates(g, g.elem_for(c), e)] if False else [c for (c, t) in facts]
            last_line = max([c.get("l") or 0 for c in inner] or [0])
            about_ptr = any(ptr_value(c) for c in inner if (c.get("l") or 0) == last_line)
            if not about_ptr:
                continue
            nthrow += 1
            r.instance()
            r.expect(e.node["t"] == CE, g, e, "pointer error with a tolerated type", "%s reports a looping / out-of-range compression pointer as %s: parseTypedRecord catches that type per record, drops only the typed view and lets the "
                     "message through (answers=1, cname_records=0) — the resolver caches a CNAME that lost its target" % (short(g.name), short(e.node["t"])), okdesc="%s: pointer error → DnsCompressionException" % short(g.name))
    if nthrow < 3:
        raise AnalysisBroken("only %d pointer-error throw sites found" % nthrow)
    ptr = dm(ctx, "parseTypedRecord")
    for t in ptr.trys.values():
        hs = [h if isinstance(h, str) else (h.get("t") or "...") for h in t.get("handlers", [])]
        generic = [i for i, h in enumerate(hs) if h == "..." or "std::exception" in h or h.endswith("DnsParseException &") or "DnsException" in h]
        if not generic:
            continue
        r.instance()
        ci = [i for i, h in enumerate(hs) if "DnsCompressionException" in h]
        ok = bool(ci) and ci[0] < generic[0]
        if ok:
            hb = [b for b in ptr.blocks.values() if b.label and b.label.get("k") == "catch" and "DnsCompressionException" in (b.label.get("t") or "") and b.label.get("try") == t["id"]]
            ok = bool(hb) and any(e.kind == "stmt" and e.node.get("k") == "throw" and not e.node.get("v") for e in _reach_until_ret(ptr, hb[0].id))
        r.expect(ok, ptr, None, "pointer error swallowed per record", "parseTypedRecord's lenient handler (%s) is not preceded by a handler that rethrows DnsCompressionException: a CNAME/MX/SRV/PTR/SOA/NAPTR name that is a "
                 "self-pointer or points outside the message only loses its typed view" % hs[generic[0]], okdesc="DnsCompressionException rethrown before the lenient handler")
    # (c)
    nwr = 0
    for g in fb.in_file(DCF):
        if not g.ok:
            continue
        writes = [(e, n) for (e, n, k) in common.field_writes(g, DC + "::cache_")]
        for (e, n) in writes:
            nwr += 1
            # the only legitimate writer is reached from constructors alone
            callers = {c.name for (c, ce, cn) in ctx.cg().callers.get(g.name, [])}
            own_ok = g.kind == "ctor" or (callers and all(fb.by_name[c][0].kind == "ctor" for c in callers if c in fb.by_name))
            r.instance()
            r.expect(own_ok, g, e, "shared cache object replaced", "%s assigns DnsCache::cache_ and is reachable from %s: get/put/remove dereference that pointer without a lock, so replacing the object while the cache is in "
                     "use destroys it under a concurrent reader (heap-use-after-free; clear() racing the resolver's completion callback)" % (short(g.name), sorted(short(c) for c in callers) or "nowhere"),
                     okdesc="%s: cache_ set during construction only" % short(g.name))
    if nwr < 1:
        raise AnalysisBroken("DnsCache::cache_: no write found")


def run(ctx, ck):
    r0 = ck.run_rule("C19-R0", "the local names the rules are anchored on exist (a rename makes the analysis refuse — exit 2 — instead of raising a false alarm)", "anchor table", lambda r: anchors(ctx, r))
    if r0.broken:
        return
    ck.run_rule("C19-R1", "every decoder read lies inside the window established since the cursor last moved; checkBounds cannot wrap", "A7 cursor-window abstract interpretation (checkBounds idiom, symbolic lengths)", lambda r: r1(ctx, r))
    ck.run_rule("C19-R2", "compression pointers: range test, visited set, limits, progress", "A2 dominance + cycle analysis", lambda r: r2(ctx, r))
    ck.run_rule("C19-R3", "section loops are driven by the 16-bit header counts through the guarded readers", "A2", lambda r: r3(ctx, r))
    ck.run_rule("C19-R4", "parse failures are contained and complete the pending query", "A9", lambda r: r4(ctx, r))
    ck.run_rule("C19-R5", "cache key = (case-folded name, type, class), built only through fromQuestion", "A10", lambda r: r5(ctx, r))
    ck.run_rule("C19-R6", "expiry checked on every hit; fresh expiration stored on every set; minimum TTL over every record collection; zero TTL not cached", "A2 + A10 table agreement", lambda r: r6(ctx, r))
    ck.run_rule("C19-R7", "encoder limits; query layout matches the decoder", "A2", lambda r: r7(ctx, r))
    ck.run_rule("C19-R9", "wire layout tables: field widths, order, flag masks, typed-record offsets, byte order", "A10 table extraction", lambda r: r9(ctx, r))
    ck.run_rule("C19-R10", "names end only at the root octet; pointer errors are fatal also in RDATA; the shared cache object is never replaced", "A2 path rule + exception typestate + A3 who-may-write", lambda r: r10(ctx, r))
    ck.run_rule("C19-R8", "RDATA of A/AAAA/TXT is opaque: no rejection by byte content", "A10", lambda r: r8(ctx, r))
