"""C17 — The HTTP client transmits a non-idempotent request at most once (DESIGN.md §2 C17)."""
from ..cfg import search, witness_str, dominated_by_edge, elem_dominates, may_throw_elem
from ..expr import show, walk, last, field_of, strip_wrappers, strip_casts, short, const_value, is_assign, assign_parts as _ap, strip_views
from ..facts import AnalysisBroken
from ..finite import dominating_facts, flatten_fact
from ..predabs import Vocab, PredAbs, A, Not, And, Or, T, F
from ..rules import common
from .c15 import asg, key_of, fn, _reach_until_ret, handler_covers

TITLE = "The HTTP client transmits a non-idempotent request at most once"
TECHNIQUE = 'finite predicate abstraction over the retry handler (idempotent / not-sent atoms, tracked bool copies) plus reaching-definition locality of the retry decision; CFG reachability from send calls to not-sent constructions; dominance for the retry budget; must-lockset; eviction-path rules'
HC = "iora::network::HttpClient"
HCF = "iora/network/http_client.hpp"
M = HC + "::_mutex"
SENDS = ("sendSync", "send", "sendAsync")
IDEMPOTENT = {"GET", "HEAD", "PUT", "DELETE", "OPTIONS", "TRACE"}

EXPLANATION = (
    "At which byte the peer fails is the property's quantifier; decided statically is the shape of the retry/eviction logic in "
    "http_client.hpp. R1 the retry decision is a pure function of (method, the exception just caught): every variable in the condition "
    "that guards the re-throw is defined inside that handler from isIdempotentMethod(method) and a dynamic_cast of the handler's own "
    "exception — nothing carried over from an earlier attempt — and the back edge of the retry loop is reached only with "
    "idempotent ∨ not-sent; the HttpFramingError handler has no path back into the loop. R2 the idempotent set is a subset of RFC 9110 "
    "§9.2.2 compared exactly. R3 HttpRequestNotSentError is constructed only where no send call can have executed: not reachable from "
    "any sendSync/send/sendAsync in executeRequest, and the try region it wraps reaches no send through the call graph. R4 the attempt "
    "counter starts at 0, is incremented once per back edge behind the false edge of `attempt >= retries`. R5 after the send every "
    "failure path evicts the connection (catch-all → dropConnection → rethrow; send failure → dropConnection), the normal path evicts "
    "unless `reusable`, whose conjuncts include the configuration switch, ¬close signal, ¬surplus bytes and ¬close-delimited, and "
    "frameResponse flags every surplus-bytes edge. R6 lock table and lease: cache and lease set under HttpClient::_mutex, the lease "
    "object is created before the connection is acquired. R7 every blocking transport call gets a configured timeout, is made without "
    "_mutex, and the timeout arm of the receive loop throws.")
NOT_DECIDED = ["at which byte the peer failed", "that sendSync returning an error implies nothing was written (it does not; the code treats it as possibly sent)", "wall-clock accuracy of the transport's timeouts (C03)"]


def is_notsent_cast(n):
    """dynamic_cast<const HttpRequestNotSentError *>(&exception)"""
    while n is not None and n.get("k") == "cast":
        if "HttpRequestNotSentError" in (n.get("t") or ""):
            return True
        n = n.get("v")
    return False


def unwrap(n):
    """look through casts and single-argument conversions (duration(x), BufferView{…})"""
    while True:
        n = strip_casts(strip_wrappers(n)) if n is not None else None
        if n is not None and n.get("k") == "ctor" and len([a for a in n.get("args", []) if not a.get("def")]) == 1:
            n = [a for a in n["args"] if not a.get("def")][0]
            continue
        return n


def r1(ctx, r):
    p = fn(ctx, HC, "performRequest", HCF)
    ex = [e for e in p.stmts() if e.node.get("k") == "mcall" and last(e.node.get("callee", "")) == "executeRequest"]
    if len(ex) != 1 or not ex[0].try_id:
        raise AnalysisBroken("performRequest: executeRequest call not found inside a try")
    tid = ex[0].try_id
    hs = [b for b in p.blocks.values() if b.label and b.label.get("k") == "catch" and b.label.get("try") == tid]
    if len(hs) < 1:
        raise AnalysisBroken("performRequest: %d handlers" % len(hs))
    fr = [b for b in hs if "HttpFramingError" in b.label.get("t", "")]
    gen = [b for b in hs if "std::exception" in b.label.get("t", "") or b.label.get("t") == "..."]
    # handler order: the framing handler is tried first
    order = p.trys[tid]["handlers"]
    r.instance()
    r.expect(len(fr) == 1 and gen and [i for i, h in enumerate(order) if "HttpFramingError" in h][0] < [i for i, h in enumerate(order) if "std::exception" in h or h == "..."][0], p, None, "framing handler order",
             "there is no HttpFramingError handler ahead of the generic one (handlers: %s): deterministic framing errors fall into the retry logic" % ", ".join(order), okdesc="handlers: %s" % ", ".join(order))
    if not gen:
        raise AnalysisBroken("performRequest: no generic handler")
    r.instance()
    if fr:
        w = search(p, ("block", fr[0].id), lambda x: x is ex[0], eh=False)
        r.expect(w is None, p, None, "framing error retried", "the HttpFramingError handler can reach executeRequest again: a deterministic framing error is retried (and a non-idempotent request re-sent)",
                 witness=witness_str(p, w), okdesc="framing handler ends in throw")
    # the generic handler: decision variables
    g = gen[0]
    hblocks = set()
    work = [g.id]
    while work:
        b = work.pop()
        if b in hblocks or b is None:
            continue
        hblocks.add(b)
        for s in p.blocks[b].succs:
            if s is not None and not any(x is ex[0] for x in p.blocks[s].elems) and s != ex[0].block.id:
                work.append(s)
    excvar = g.label.get("var") or "e"
    rethrows = [e for e in p.stmts() if e.block.id in hblocks and e.node.get("k") == "throw" and "root" in e.raw]
    backs = [e for e in p.stmts() if e.block.id in hblocks and e.node.get("k") == "un" and "++" in e.node.get("op", "") and key_of(e.node["v"]) == "attempt"]
    if len(backs) != 1 or len(rethrows) < 2:
        raise AnalysisBroken("performRequest: %d increments of attempt, %d rethrows in the generic handler" % (len(backs), len(rethrows)))
    # variables read by the conditions that decide between rethrow and retry
    conds = [b for b in p.blocks.values() if b.id in hblocks and b.cond is not None]
    decision_vars = {}
    for b in conds:
        for x in walk(b.cond):
            # (the caught exception object is fresh in every handler entry: a condition may read it directly, e.g. when the
            # named flag it was stored in is spelled out in the `if`)
            if x.get("k") == "var" and x.get("parm") is None and x["n"] not in ("attempt", excvar):
                decision_vars[x["n"]] = x.get("d")
    r.instance(max(1, len(decision_vars)))
    for name, d in sorted(decision_vars.items()):
        defs = []
        for e in p.stmts():
            if e.node.get("k") == "decl":
                for v in e.node["vars"]:
                    if v["n"] == name and v.get("d") == d:
                        defs.append((e, v.get("init")))
            a = asg(e.node)
            if a and key_of(a[0]) == name:
                defs.append((e, a[1]))
        ok, why = bool(defs), "no definition found"
        for (e, rhs) in defs:
            if e.block.id not in hblocks:
                ok, why = False, "it is (also) defined outside the handler, at line %d, i.e. before the attempt that just failed" % e.line
                break
            if rhs is None:
                ok, why = False, "defined without a value"
                break
            for x in walk(rhs):
                if x.get("k") == "var" and x["n"] == name:
                    ok, why = False, "its new value depends on its value from an earlier attempt (`%s`)" % show(rhs)[:70]
                if x.get("k") == "var" and x.get("parm") is None and x["n"] not in (name, excvar) and x["n"] != "e":
                    ok, why = False, "it depends on `%s`, which is not the method or the exception just caught" % x["n"]
                if x.get("k") in ("call", "mcall") and last(x.get("callee", "")) not in ("isIdempotentMethod",):
                    ok, why = False, "it calls %s" % last(x.get("callee", ""))
            if not ok:
                break
        r.expect(ok, p, defs[0][0] if defs else None, "retry decision carried over: %s" % name, "the retry decision reads `%s`, and %s: a not-sent (or otherwise retryable) classification of an EARLIER attempt makes a later attempt "
                 "that did transmit the request eligible for another retry — a POST is submitted twice" % (name, why), okdesc="`%s` computed in the handler from (method, current exception)" % name)
    if not decision_vars:
        r.ok("decision conditions use no carried variable")
    # back edge only with idempotent ∨ not-sent
    vocab = Vocab(["idem", "ns"])

    def leaf(n):
        if n.get("k") in ("call", "mcall") and last(n.get("callee", "")) == "isIdempotentMethod" and key_of(n["args"][0]) == "method":
            return A("idem")
        cp = common.cmp_parts(n)
        if cp and cp[0] == "!=" and is_notsent_cast(cp[1]) and strip_casts(cp[2]).get("k") in ("null", "nullptr", "int", "zero"):
            return A("ns")
        return None

    def effects(e):
        # a new exception is caught: the not-sent fact is about THIS exception
        if e.kind == "stmt" and e is ex[0]:
            return [("havoc", "ns")]
        return None
    pa = PredAbs(p, vocab, leaf, effects, track_bools=True)
    r.instance()
    r.expect(pa.entails(backs[0], Or(A("idem"), A("ns"))), p, backs[0], "retry of a possibly-sent non-idempotent request", "the retry loop's back edge (`attempt++`) is reachable with neither `isIdempotentMethod(method)` nor "
             "'the exception just caught is HttpRequestNotSentError' established (%s)" % ", ".join(pa.describe(backs[0])), okdesc="back edge ⇒ idempotent ∨ not-sent(current exception)")
    r.instance()
    r.expect(any(x.get("k") in ("call", "mcall") and last(x.get("callee", "")) == "isIdempotentMethod" for e in p.stmts() for x in [e.node]) and any(is_notsent_cast(x) for e in p.stmts() if e.block.id in hblocks for x in walk(e.node) if x.get("k") == "cast"), p, None,
             "retry atoms", "the retry predicate no longer consists of isIdempotentMethod(method) and the dynamic_cast of the caught exception", okdesc="atoms: isIdempotentMethod(method), dynamic_cast<NotSent>(&e)")


def r2(ctx, r):
    f = fn(ctx, HC, "isIdempotentMethod", HCF)
    lits = []
    for e in f.stmts():
        cp = common.cmp_parts(e.node)
        if cp and cp[0] == "==" and key_of(strip_views(cp[1])) == "method":
            lits += [x.get("v") for x in walk(cp[2]) if x.get("k") == "str"]
    lits = sorted(set(lits))
    if not lits:
        raise AnalysisBroken("isIdempotentMethod: no compared literals found")
    r.instance(len(lits))
    for l in lits:
        r.expect(l in IDEMPOTENT, f, None, "method %s" % l, "isIdempotentMethod treats `%s` as idempotent; RFC 9110 §9.2.2 lists %s" % (l, ", ".join(sorted(IDEMPOTENT))), okdesc="%s is idempotent" % l)
    r.instance()
    calls = {last(x.get("callee", "")) for e in f.stmts() for x in walk(e.node) if x.get("k") in ("call", "mcall")}
    r.expect(not (calls & {"tolower", "toupper", "strcasecmp", "ciEquals", "transform"}), f, None, "case-insensitive method", "isIdempotentMethod compares case-insensitively (the method token is case-sensitive; `get` is not GET)", okdesc="exact comparison")


def send_reach(fb, f, seen=None):
    """f (transitively, inside HttpClient) calls a transport send"""
    seen = seen if seen is not None else set()
    if f.name in seen:
        return False
    seen.add(f.name)
    for e in f.stmts():
        n = e.node
        if n.get("k") == "mcall" and last(n.get("callee", "")) in SENDS and "Transport" in n.get("callee", ""):
            return True
        if n.get("k") in ("mcall", "call") and (n.get("callee") or "").startswith(HC + "::"):
            for g in fb.funcs(n["callee"], HCF):
                if g.ok and send_reach(fb, g, seen):
                    return True
    return False


def r3(ctx, r):
    fb = ctx.fb()
    n = 0
    for f in fb.in_file(HCF):
        if not f.ok:
            continue
        sends = [e for e in f.stmts() if e.node.get("k") == "mcall" and last(e.node.get("callee", "")) in SENDS and "Transport" in e.node.get("callee", "")]
        sends += [e for e in f.stmts() if e.node.get("k") in ("mcall", "call") and (e.node.get("callee") or "").startswith(HC + "::") and any(g.ok and send_reach(fb, g) for g in fb.funcs(e.node["callee"], HCF))]
        for e in f.stmts():
            nn = e.node
            if not (nn.get("k") == "throw" and "root" in e.raw and "HttpRequestNotSentError" in show(nn)):
                continue
            n += 1
            r.instance()
            w = None
            for s in sends:
                w = search(f, s, lambda x: x is e, eh=True)
                if w is not None:
                    break
            r.expect(w is None, f, e, "not-sent claimed after a send", "%s throws HttpRequestNotSentError at a point reachable from `%s` (line %d): the request may already be on the wire, yet the retry loop treats the failure as "
                     "provably unsent and re-sends a non-idempotent request" % (last(f.name), show(s.node)[:40] if w is not None else "", s.line if w is not None else 0), witness=witness_str(f, w),
                     okdesc="%s: not-sent thrown where no send can have run" % last(f.name))
            # the region this handler wraps reaches no send
            if e.catch_id:
                region = [x for x in f.stmts() if x.try_id == e.catch_id or (f.trys.get(x.try_id, {}).get("parent") == e.catch_id)]
                r.instance()
                bad = [x for x in region if x in sends]
                r.expect(not bad, f, bad[0] if bad else None, "send inside the not-sent region", "the try block whose failures are re-labelled 'not sent' contains `%s`, which transmits" % (show(bad[0].node)[:50] if bad else ""),
                         okdesc="wrapped region reaches no send (%d calls checked)" % len([x for x in region if x.node.get("k") in ("call", "mcall")]))
    if n < 1:
        raise AnalysisBroken("no construction of HttpRequestNotSentError found")
    # nothing else derives from it / aliases it in a way that widens the claim
    rec = [k for k in fb.records if k.endswith("HttpRequestNotSentError")]
    r.instance()
    r.expect(len(rec) == 1, HC, None, "not-sent type", "HttpRequestNotSentError is not a single distinct type", okdesc="one not-sent exception type")


def r4(ctx, r):
    p = fn(ctx, HC, "performRequest", HCF)
    ex = [e for e in p.stmts() if e.node.get("k") == "mcall" and last(e.node.get("callee", "")) == "executeRequest"]
    decl = [v for e in p.stmts() if e.node.get("k") == "decl" for v in e.node["vars"] if v["n"] == "attempt"]
    incs = [e for e in p.stmts() if (e.node.get("k") == "un" and ("++" in e.node.get("op", "") or "--" in e.node.get("op", "")) and key_of(e.node["v"]) == "attempt") or (asg(e.node) and key_of(asg(e.node)[0]) == "attempt") or
            (e.node.get("k") == "bin" and e.node.get("op") in ("+=", "-=") and key_of(e.node["lhs"]) == "attempt")]
    r.instance()
    r.expect(len(decl) == 1 and const_value(strip_casts(decl[0].get("init") or {})) == 0 and len(incs) == 1 and "++" in incs[0].node.get("op", ""), p, incs[0] if incs else None, "attempt counter", "`attempt` does not start at 0 with exactly one increment",
             okdesc="attempt = 0; one attempt++")
    def budget_test(b):
        """(op, attempt, retries) of `attempt OP retries`, whichever way round the source writes it"""
        co = common.cmp_oriented(b.cond, lambda x: key_of(x) == "retries") if b.cond is not None else None
        return co if co and key_of(co[1]) == "attempt" else None
    gb = [b for b in p.blocks.values() if budget_test(b)]
    r.instance()
    ok = len(gb) == 1 and len(incs) == 1 and len(ex) == 1
    if ok:
        op = budget_test(gb[0])[0]
        ok = op in (">=", ">") and dominated_by_edge(p, incs[0], gb[0], 1, eh=True) and op == ">="
        # the only way back to executeRequest passes the increment
        ok = ok and search(p, ex[0], lambda x: x is ex[0], stop=lambda x: x is incs[0], eh=True) is None
        tb = p.blocks[gb[0].succs[0]]
        ok = ok and any(e.kind == "stmt" and e.node.get("k") == "throw" for e in _reach_until_ret(p, tb.id))
    r.expect(ok, p, incs[0] if incs else None, "retry budget", "another attempt is possible without passing the false edge of `attempt >= retries` and the single increment: more than retries+1 attempts", okdesc="at most retries+1 executions of executeRequest")
    # the loop re-declares nothing that resets the counter; decl dominates the loop
    r.instance()
    de = [e for e in p.stmts() if e.node.get("k") == "decl" and any(v["n"] == "attempt" for v in e.node["vars"])]
    r.expect(de and ex and search(p, ex[0], lambda x: x is de[0], eh=True) is None, p, None, "counter reset", "`attempt` is re-initialised inside the loop", okdesc="counter declared before the loop")


def r5(ctx, r):
    e_ = fn(ctx, HC, "executeRequest", HCF)
    la = ctx.locks()
    send = [e for e in e_.stmts() if e.node.get("k") == "mcall" and last(e.node.get("callee", "")) == "sendSync"]
    if len(send) != 1:
        raise AnalysisBroken("executeRequest: %d sendSync calls" % len(send))
    drops = [e for e in e_.stmts() if e.node.get("k") == "mcall" and last(e.node.get("callee", "")) == "dropConnection"]
    # send failure → drop → throw
    sb = [b for b in e_.blocks.values() if b.cond is not None and "sendResult.isErr()" in show(b.cond)]
    r.instance()
    ok = len(sb) == 1
    if ok:
        els = _reach_until_ret(e_, sb[0].succs[0])
        ok = any(x in drops for x in els) and any(x.kind == "stmt" and x.node.get("k") == "throw" for x in els)
    r.expect(ok, e_, send[0], "send failure keeps the connection", "a failed send does not evict the connection before the error is reported", okdesc="send error → dropConnection → throw")
    # receive/framing region: a try with catch-all → drop → rethrow
    rcv = [e for e in e_.stmts() if e.node.get("k") == "mcall" and last(e.node.get("callee", "")) == "receiveSync"]
    r.instance()
    ok = len(rcv) == 1 and rcv[0].try_id and "..." in e_.trys[rcv[0].try_id]["handlers"]
    hb = [b for b in e_.blocks.values() if b.label and b.label.get("k") == "catch" and rcv and b.label.get("try") == rcv[0].try_id and b.label.get("t") == "..."]
    if ok and hb:
        els = _reach_until_ret(e_, hb[0].id)
        ok = any(x in drops for x in els) and any(x.kind == "stmt" and x.node.get("k") == "throw" and x.node.get("v") is None for x in els)
    r.expect(ok and bool(hb), e_, rcv[0] if rcv else None, "receive failure keeps the connection", "a failure while receiving/framing the response does not evict the connection (catch-all → dropConnection → rethrow expected)", okdesc="catch (...) → dropConnection → throw;")
    # every clause of that try evicts: a more specific handler placed before the catch-all must not let its exception type skip the eviction
    if rcv and rcv[0].try_id:
        for b in e_.blocks.values():
            if b.label and b.label.get("k") == "catch" and b.label.get("try") == rcv[0].try_id and b.label.get("t") != "...":
                els = _reach_until_ret(e_, b.id)
                r.instance()
                r.expect(any(x in drops for x in els), e_, els[0] if els else None, "failure type skips the eviction: %s" % b.label.get("t"), "the receive/framing block has a `catch (%s)` clause that leaves without dropConnection: a connection that "
                         "failed with that error stays cached (in Sync mode, with the peer's bytes still queued) and serves the next request to the same host — which reads the stale bytes as its own response" % b.label.get("t"),
                         okdesc="catch (%s) evicts" % b.label.get("t"))
    # everything after the send that can throw is inside that try (or is the send-failure path)
    if ok:
        tid = rcv[0].try_id
        after = []
        for x in e_.stmts():
            if "root" not in x.raw or x.try_id == tid or e_.trys.get(x.try_id, {}).get("parent") == tid or x.catch_id:
                continue
            if search(e_, send[0], lambda y, x=x: y is x, eh=False) is None:
                continue
            if x.block.id in {b.id for b in e_.blocks.values()} and any(x in _reach_until_ret(e_, sb[0].succs[0]) for _ in [0]):
                continue
            if x.node.get("k") in ("mcall", "call") and last(x.node.get("callee", "")) in ("frameResponse", "receiveSync", "setReadMode", "responseRequestsClose", "substr"):
                after.append(x)
        r.instance()
        r.expect(not after, e_, after[0] if after else None, "post-send work outside the eviction guard", "`%s` runs after the send but outside the try whose catch-all evicts the connection" % (show(after[0].node)[:40] if after else ""),
                 okdesc="receive, framing and reuse decision inside the guarded region")
    # normal path: reusable conjuncts and the else → drop
    rv = [v for e in e_.stmts() if e.node.get("k") == "decl" for v in e.node["vars"] if v["n"] == "reusable"]
    r.instance()
    if r.expect(len(rv) == 1 and rv[0].get("init") is not None, e_, None, "reuse decision", "the `reusable` decision was not found"):
        t = show(rv[0]["init"])
        conj = []

        def flat(n):
            n = strip_casts(n)
            if n.get("k") == "bin" and n.get("op") == "&&":
                flat(n["lhs"])
                flat(n["rhs"])
            else:
                conj.append(show(n))
        flat(rv[0]["init"])
        # probes: methods of the client that ask the transport, without waiting, whether anything is there (zero-timeout receiveSync)
        def probe_summary(g):
            rc = [x for x in g.nodes.values() if x.get("k") == "mcall" and last(x.get("callee", "")) == "receiveSync" and "Transport" in x.get("callee", "")]
            if len(rc) != 1:
                return None
            tcs = [const_value(y) for y in walk(unwrap(rc[0]["args"][-1])) if y.get("k") == "int"]
            if tcs != [0]:
                return None
            rets = common.returns(g)
            txt = " ".join(show(e.node) for e in rets)
            # 'pending' form: true unless Timeout ; 'quiet' form: true only for Timeout
            if "isOk()" in txt and "!=" in txt and "Timeout" in txt:
                return "pending"
            if "isErr()" in txt and "==" in txt and "Timeout" in txt:
                return "quiet"
            return "unknown"
        probes = {g.name: probe_summary(g) for g in ctx.fb().methods_of(HC) if g.ok and probe_summary(g)}
        ctx._c17_probes = probes

        def no_pending(c):
            m = [n_ for n_, k_ in probes.items() if last(n_) + "(" in c]
            return bool(m) and ((probes[m[0]] == "pending" and c.startswith("!")) or (probes[m[0]] == "quiet" and not c.startswith("!")))
        need = {"reuse switch": lambda c: c == "_config.reuseConnections", "no close signal": lambda c: c.startswith("!responseRequestsClose("), "no surplus bytes": lambda c: c == "!forceEvict",
                "not close-delimited": lambda c: "framing.mode != " in c and "CloseDelimited" in c,
                "nothing pending in the transport (bytes behind a message that ended exactly at a read boundary never reach the surplus test)": no_pending}
        for k, pred in need.items():
            r.instance()
            r.expect(any(pred(c) for c in conj), e_, None, "reuse without: %s" % k, "the connection is kept for reuse without the conjunct '%s' (conjuncts: %s): a connection that saw a close signal / surplus bytes / a close-delimited body serves a later request"
                     % (k, conj), okdesc="reusable ⇒ %s" % k)
        r.instance()
        r.expect(not any("||" in c for c in conj), e_, None, "reuse disjunction", "the reuse decision contains a disjunction: %s" % conj, okdesc="pure conjunction")
        # (the branch on the named decision; Block.cond would show the decision's initialiser in its place)
        rb = [b for b in e_.blocks.values() if b.cond is not None and key_of(b._raw_cond()) == "reusable"]
        r.instance()
        ok = len(rb) == 1
        if ok:
            _c, _st, _sf = common.branch(rb[0])
            els_f = _reach_until_ret(e_, _sf)
            els_t = _reach_until_ret(e_, _st)
            ok = any(x in drops for x in els_f[:6])
            # keeping it warm failing → drop
            sm = [x for x in els_t if x.kind == "stmt" and x.node.get("k") == "mcall" and last(x.node.get("callee", "")) == "setReadMode"]
            ok = ok and len(sm) >= 1
        r.expect(ok, e_, None, "non-reusable connection kept", "the not-reusable branch does not evict the connection", okdesc="!reusable → dropConnection")
    # frameResponse: every surplus-bytes comparison sets forceEvict
    fr = fn(ctx, HC, "frameResponse", HCF)
    sets = [e for e in fr.stmts() if asg(e.node) and key_of(asg(e.node)[0]) == "forceEvict" and const_value(strip_casts(asg(e.node)[1])) == 1]
    def surplus_test(b):
        co = common.cmp_oriented(b.cond, lambda x: "data.size()" not in show(x)) if b.cond is not None else None
        return co is not None and co[0] == ">" and "data.size()" in show(co[1])
    sur = [b for b in fr.blocks.values() if surplus_test(b)]
    r.instance()
    r.expect(len(sur) >= 3 and all(any(x in sets for x in fr.blocks[b.succs[0]].elems) for b in sur), fr, None, "surplus bytes not flagged", "frameResponse has %d surplus-bytes tests but not each sets forceEvict" % len(sur),
             okdesc="%d surplus-bytes edges set forceEvict" % len(sur))
    rets = [e for e in common.returns(fr) if const_value(strip_casts(e.node.get("v") or {})) == 1]
    r.instance()
    r.expect(len(rets) >= 3 and all(any(search(fr, ("block", b.id), lambda x, e=e: x is e, eh=False) is not None for b in sur) for e in rets), fr, None, "complete without surplus test", "a `return true` of frameResponse is not preceded by a surplus-bytes test",
             okdesc="every completion passes a surplus-bytes test")
    # dropConnection closes and erases only the matching entry
    dc = fn(ctx, HC, "dropConnection", HCF)
    cl = [e for e in dc.stmts() if e.node.get("k") == "mcall" and last(e.node.get("callee", "")) == "close" and "Transport" in e.node.get("callee", "")]
    er = [e for e in dc.stmts() if e.node.get("k") == "mcall" and last(e.node.get("callee", "")) == "erase" and field_of(strip_casts(e.node.get("obj"))) == HC + "::_connections"]
    r.instance()
    r.expect(len(cl) == 1 and len(er) == 1 and search(dc, ("entry",), "exit", stop=lambda x: x is cl[0], eh=False) is None, dc, None, "dropConnection", "dropConnection does not close the session on every path / erase the cache entry", okdesc="dropConnection: erase (if matching) + close")


def r6(ctx, r):
    fb, la = ctx.fb(), ctx.locks()
    for fld in ("_connections", "_leasedHosts"):
        common.guarded_by(r, fb, la, HC + "::" + fld, M, files=[HCF])
    r.floor(8, "guarded access sites")
    e_ = fn(ctx, HC, "executeRequest", HCF)
    lease = [e for e in e_.stmts() if e.node.get("k") == "decl" and any(v["n"] == "lease" for v in e.node["vars"])]
    acq = [e for e in e_.stmts() if e.node.get("k") == "mcall" and last(e.node.get("callee", "")) == "acquireConnection"]
    r.instance()
    r.expect(len(lease) == 1 and len(acq) == 1 and elem_dominates(e_, lease[0], acq[0], eh=False) and "acquireLease" in show(lease[0].node), e_, None, "lease order", "the connection is acquired before the per-host lease is held", okdesc="lease held before acquireConnection")
    # the lease object lives to the end: its destructor is an implicit dtor element at function scope exits only
    dt = [e for e in e_.elems() if e.kind == "dtor" and (e.node.get("n") == "lease" or e.node.get("var") == "lease")]
    r.instance()
    r.expect(len(dt) >= 1, e_, None, "lease scope", "the lease is not a scoped object of executeRequest", okdesc="lease released by RAII at scope exit (%d exits)" % len(dt))
    al = fn(ctx, HC, "acquireLease", HCF)
    ins = [e for e in al.stmts() if e.node.get("k") == "mcall" and last(e.node.get("callee", "")) == "insert" and field_of(strip_casts(e.node.get("obj"))) == HC + "::_leasedHosts"]
    waits = [e for e in al.stmts() if e.node.get("k") == "mcall" and last(e.node.get("callee", "")) in ("wait", "wait_for", "wait_until")]
    r.instance()
    ok = len(ins) == 1 and len(waits) >= 1 and la.holds(al, ins[0], M) and all(search(al, w, lambda x: x is ins[0], stop=lambda x: not la.holds(al, x, M), eh=False) is not None for w in waits)
    r.expect(ok, al, ins[0] if ins else None, "lease insert", "the lease is not inserted in the critical section whose predicate saw it absent", okdesc="insert in the same critical section as the wait predicate")
    rl = fn(ctx, HC, "releaseLease", HCF)
    er = [e for e in rl.stmts() if e.node.get("k") == "mcall" and last(e.node.get("callee", "")) == "erase"]
    nt = [e for e in rl.stmts() if e.node.get("k") == "mcall" and last(e.node.get("callee", "")) in ("notify_all", "notify_one")]
    r.instance()
    r.expect(len(er) == 1 and len(nt) == 1 and la.holds(rl, er[0], M) and last(nt[0].node["callee"]) == "notify_all" and elem_dominates(rl, er[0], nt[0], eh=False), rl, None, "lease release",
             "releaseLease does not erase under the lock and then notify_all (one cv serves all hosts)", okdesc="erase under _mutex, then notify_all")


def r7(ctx, r):
    fb, la = ctx.fb(), ctx.locks()
    n = 0
    for f in fb.in_file(HCF):
        if not f.ok:
            continue
        for e in f.stmts():
            nn = e.node
            if nn.get("k") == "mcall" and last(nn.get("callee", "")) in ("receiveSync", "sendSync", "connectSync") and "Transport" in nn.get("callee", ""):
                n += 1
                targ = unwrap(nn["args"][-1])
                r.instance()
                src = show(targ)
                ok = False
                if targ.get("k") == "var":
                    defs = [v.get("init") for d in f.stmts() if d.node.get("k") == "decl" for v in d.node["vars"] if v["n"] == targ["n"] and v.get("init") is not None]
                    ok = bool(defs) and all("_config." in show(x) and "imeout" in show(x) for x in defs)
                elif "_config." in src and "imeout" in src:
                    ok = True
                # a compile-time constant is a bound as well; zero is a poll (returns at once: nothing to wait for)
                tc = [const_value(x) for x in walk(targ) if x.get("k") == "int"]
                poll = targ.get("k") in ("ctor", "cast", "int") and tc == [0] and not any(x.get("k") == "var" for x in walk(targ))
                if poll or (targ.get("k") in ("ctor", "cast", "int") and len(tc) == 1 and tc[0] is not None and 0 <= tc[0] <= 60000 and not any(x.get("k") == "var" for x in walk(targ))):
                    ok = True
                r.expect(ok, f, e, "unbounded wait: %s" % last(nn["callee"]), "%s calls %s with the timeout `%s`, which is not taken from the client's configured timeouts" % (last(f.name), last(nn["callee"]), src),
                         okdesc="%s: %s(…, configured timeout)" % (last(f.name), last(nn["callee"])))
                r.instance()
                r.expect(poll or not la.holds(f, e, M), f, e, "blocking call under _mutex: %s" % last(nn["callee"]), "%s holds HttpClient::_mutex across the blocking %s: lease releases and other hosts' requests stall for the whole timeout"
                         % (last(f.name), last(nn["callee"])), okdesc="%s without _mutex" % last(nn["callee"]))
    if n < 3:
        raise AnalysisBroken("only %d blocking transport calls found in http_client.hpp (floor 3)" % n)
    e_ = fn(ctx, HC, "executeRequest", HCF)
    tb = [b for b in e_.blocks.values() if b.cond is not None and "TransportError::Timeout" in show(b.cond)]
    rcv = [e for e in e_.stmts() if e.node.get("k") == "mcall" and last(e.node.get("callee", "")) == "receiveSync"]
    r.instance()
    ok = len(tb) >= 1 and len(rcv) == 1
    if ok:
        b = tb[-1]
        ok = search(e_, ("block", b.succs[0]), lambda x: x is rcv[0], eh=False) is None and any(x.kind == "stmt" and x.node.get("k") == "throw" for x in _reach_until_ret(e_, b.succs[0]))
    r.expect(ok, e_, None, "timeout not an error", "the Timeout arm of the receive loop can receive again instead of throwing: a silent peer is waited for longer than the configured timeout", okdesc="Timeout → throw")
    # every error arm leaves the loop: the loop body ends with an error result only when the exchange is complete
    r.instance()
    okl = False
    if rcv:
        vocab = Vocab(["ok", "comp"])

        def leaf(n):
            t = show(n)
            if t == "recvResult.isOk()":
                return A("ok")
            if t == "recvResult.isErr()":
                return Not(A("ok"))
            if n.get("k") == "var" and n["n"] == "complete":
                return A("comp")
            return None

        def effects(e):
            if e is rcv[0]:
                return [("havoc", "ok")]
            if e.kind != "stmt":
                return None
            a = asg(e.node)
            if a and key_of(a[0]) == "complete":
                cv = const_value(strip_casts(a[1]))
                return [("set", "comp", bool(cv))] if cv is not None else [("havoc", "comp")]
            if e.node.get("k") == "decl":
                for v in e.node["vars"]:
                    if v["n"] == "complete":
                        return [("set", "comp", bool(const_value(strip_casts(v.get("init") or {}))))]
            return None
        pa = PredAbs(e_, vocab, leaf, effects, eh=False)
        ends = [x for x in e_.elems() if x.kind == "dtor" and (x.node.get("n") == "recvResult" or x.node.get("var") == "recvResult") and search(e_, x, lambda y: y is rcv[0], eh=False) is not None]
        okl = bool(ends) and all(pa.entails(x, Or(A("ok"), A("comp"))) for x in ends)
    r.expect(okl, e_, None, "error arm loops", "an error result of receiveSync can lead back to another receive without the exchange being complete: a failing peer is polled again instead of the attempt failing", okdesc="every error arm throws or completes")


def r8(ctx, r):
    """the close signal is recognised: token-wise, case-folded `close`; HTTP/1.0 default; in ANY Connection field line"""
    # the value responseRequestsClose looks at holds every Connection field line: a repeated line is appended, not assigned
    ph = fn(ctx, HC, "parseHeaderBlock", HCF)
    plain = [e for e in ph.stmts() if asg(e.node) and strip_casts(asg(e.node)[0]).get("k") == "opcall" and strip_casts(asg(e.node)[0]).get("op") == "[]" and "headers" in show(asg(e.node)[0])]
    apps = [e for e in ph.stmts() if e.node.get("k") == "mcall" and last(e.node.get("callee", "")) in ("append", "operator+=") and "second" in show(e.node.get("obj") or {})] + \
           [e for e in ph.stmts() if e.node.get("k") == "opcall" and e.node.get("op") == "+=" and "second" in show(e.node["args"][0])]
    r.instance()
    if not plain:
        raise AnalysisBroken("parseHeaderBlock: header store not found")
    okc = False
    for a_ in apps:
        fx = dominating_facts(ph, a_)
        is_conn = any(t and any(x.get("k") == "str" and x.get("v", "").lower() == "connection" for x in walk(c)) for (c, t) in fx)
        found = any(("end()" in show(c)) and ((common.cmp_parts(strip_casts(c)) or ("",))[0] == "!=") == t for (c, t) in fx)
        if is_conn and found:
            okc = True
    # … and the plain (last-wins) store is not reachable for a repeated Connection line
    r.expect(okc, ph, plain[0], "repeated Connection line overwrites the earlier one", "parseHeaderBlock stores every field with `headers[name] = value` (last wins): `Connection: close` followed by `Connection: keep-alive` "
             "is treated as persistent — the close signal is lost and the next request goes out on a connection the server announced it would close (RFC 9110 §5.3: repeated lines are one list)",
             okdesc="repeated Connection lines are combined into one list")
    # a cached connection is handed to a request only after the transport was asked whether the peer has closed it / sent
    # anything since the last exchange (a close that arrives after a complete keep-alive response is seen by nobody else)
    aq = fn(ctx, HC, "acquireConnection", HCF)
    probes = getattr(ctx, "_c17_probes", None)
    if probes is None:
        raise AnalysisBroken("probe summaries not collected (C17-R5 did not run)")
    crets = [e for e in common.returns(aq) if "second.id" in show(e.node) or ".id" in show(e.node) and "it->" in show(e.node)]
    if not crets:
        raise AnalysisBroken("acquireConnection: cached return not found")
    for e in crets:
        r.instance()
        okp = False
        for (c, t) in dominating_facts(aq, e):
            c0 = strip_casts(c)
            if c0.get("k") == "mcall" and c0.get("callee") in probes:
                kind = probes[c0["callee"]]
                if (kind == "quiet" and t) or (kind == "pending" and not t):
                    okp = True
        r.expect(okp, aq, e, "cached connection handed out unchecked", "acquireConnection returns a cached session without having asked the transport (zero-timeout receive) whether the peer closed it or sent anything since "
                 "the last exchange: a server that closes right after a complete keep-alive response leaves a dead session in the cache — the next request is 'sent' on it, fails as possibly-sent and (for a POST) is "
                 "not retried although not a byte reached the server", okdesc="cached session probed before reuse")
    f = fn(ctx, HC, "responseRequestsClose", HCF)
    common.require_names(f, ["token", "resp"])
    cb = [b for b in f.blocks.values() if b.cond is not None and common.cmp_parts(b.cond) and common.cmp_parts(b.cond)[0] == "==" and key_of(strip_views(common.cmp_parts(b.cond)[1])) == "token" and
          [x.get("v") for x in walk(common.cmp_parts(b.cond)[2]) if x.get("k") == "str"] == ["close"]]
    r.instance()
    ok = len(cb) == 1 and any(e.kind == "stmt" and e.node.get("k") == "ret" and const_value(strip_casts(e.node.get("v") or {})) == 1 for e in f.blocks[cb[0].succs[0]].elems)
    r.expect(ok, f, None, "close token", "responseRequestsClose does not return true for a `close` token of the Connection header: a connection the server is about to close stays cached and the next request fails on it",
             okdesc="token == \"close\" → true")
    fold = [e for e in f.stmts() if e.node.get("k") == "call" and last(e.node.get("callee", "")) == "transform" and "token.begin()" in show(e.node)]
    lam_ok = any("asciiLower" in show(x.node) or "tolower" in show(x.node) for (ln, lf) in f.lambdas for x in lf.stmts())
    r.instance()
    r.expect(bool(fold) and lam_ok and cb and all(search(f, e, lambda x: x.block is cb[0], eh=False) is not None for e in fold), f, None, "close token case", "the Connection tokens are not case-folded before the comparison (`Connection: Close` is missed)",
             okdesc="tokens lower-cased before comparison")
    sp = [e for e in f.stmts() if e.node.get("k") == "mcall" and last(e.node.get("callee", "")) == "find" and [const_value(x) for x in walk(e.node["args"][0]) if x.get("k") == "char"] == [ord(",")]]
    hd = [e for e in f.stmts() if e.node.get("k") == "mcall" and last(e.node.get("callee", "")) == "find" and [x.get("v") for x in walk(e.node["args"][0]) if x.get("k") == "str"] == ["Connection"]]
    r.instance()
    r.expect(len(sp) == 1 and len(hd) == 1, f, None, "token list", "the Connection header is not looked up and split on commas", okdesc="Connection header split on ','")
    rets = [e for e in common.returns(f) if "httpVersion" in show(e.node)]
    r.instance()
    r.expect(len(rets) == 1 and '"1.0"' in show(rets[0].node) and "==" in show(rets[0].node), f, None, "HTTP/1.0 default", "without a Connection directive an HTTP/1.0 response is not treated as closing", okdesc="no directive: close iff HTTP/1.0")
    # keep-alive only wins when no close token was seen: the `return false` for keep-alive is after the token loop
    kf = [e for e in common.returns(f) if const_value(strip_casts(e.node.get("v") or {})) == 0]
    r.instance()
    r.expect(len(kf) == 1 and cb and search(f, kf[0], lambda x: x.block is cb[0], eh=False) is None, f, None, "keep-alive precedence", "a keep-alive token ends the scan before a later `close` token is seen", okdesc="keep-alive decided only after all tokens")



def anchors(ctx, r):
    tab = [(fn(ctx, HC, "performRequest", HCF), ["attempt", "retries", "method"]), (fn(ctx, HC, "executeRequest", HCF), ["reusable", "forceEvict", "framing", "recvResult", "complete", "lease", "sendResult"]),
           (fn(ctx, HC, "frameResponse", HCF), ["forceEvict", "data"]), (fn(ctx, HC, "isIdempotentMethod", HCF), ["method"])]
    for f, names in tab:
        common.require_names(f, names)
        r.instance()
        r.ok("%s: %s" % (last(f.name), ", ".join(names)))


def run(ctx, ck):
    r0 = ck.run_rule("C17-R0", "the local names the rules are anchored on exist (a rename makes the analysis refuse — exit 2 — instead of raising a false alarm)", "anchor table", lambda r: anchors(ctx, r))
    if r0.broken:
        return
    ck.run_rule("C17-R1", "the retry decision is a pure function of (method, exception just caught); framing errors never retried", "A5 predicate abstraction + reaching-definition locality", lambda r: r1(ctx, r))
    ck.run_rule("C17-R2", "idempotent method set ⊆ RFC 9110 §9.2.2, exact comparison", "A10 table", lambda r: r2(ctx, r))
    ck.run_rule("C17-R3", "'not sent' is claimed only where no send can have executed", "A2 reachability + A3 call graph", lambda r: r3(ctx, r))
    ck.run_rule("C17-R4", "at most retries+1 attempts", "A2 dominance", lambda r: r4(ctx, r))
    ck.run_rule("C17-R5", "a connection that saw a failure, a close signal or surplus bytes is evicted", "A2 + A9", lambda r: r5(ctx, r))
    ck.run_rule("C17-R6", "cache and lease under the client mutex; lease held for the whole exchange", "A1 + A2", lambda r: r6(ctx, r))
    ck.run_rule("C17-R8", "the server's close signal is recognised (token-wise, case-folded; HTTP/1.0 default)", "A10 table + order", lambda r: r8(ctx, r))
    ck.run_rule("C17-R7", "every blocking call has a configured timeout, runs without the client mutex; timeout is an error", "A2 + A1", lambda r: r7(ctx, r))
