"""C17 — The HTTP client transmits a non-idempotent request at most once (DESIGN.md §2 C17)."""
from ..cfg import search, witness_str, dominated_by_edge, elem_dominates, may_throw_elem
from ..expr import show, walk, last, field_of, strip_wrappers, strip_casts, short, const_value, is_assign, assign_parts as _ap, strip_views
from ..facts import AnalysisBroken
from ..finite import dominating_facts, flatten_fact
from ..predabs import Vocab, PredAbs, A, Not, And, Or, T, F, atoms_of, translate, known_when
from ..rules import common
from .c15 import asg, key_of, fn, _reach_until_ret, handler_covers

TITLE = "The HTTP client transmits a non-idempotent request at most once"
TECHNIQUE = ('finite predicate abstraction over the retry handler (idempotent / not-sent atoms, tracked bool copies) and over the keep-or-evict paths of the exchange, both seeing through the client\'s own boolean helper '
             'functions (summaries over the same atoms, parameters bound to arguments); reaching-definition locality of the retry decision; CFG reachability from send calls to not-sent constructions closed over the call graph; '
             'dominance for the retry budget; must-lockset; eviction-path rules; locals identified by the value they hold, not by name')
HC = "iora::network::HttpClient"
HCF = "iora/network/http_client.hpp"
M = HC + "::_mutex"
SENDS = ("sendSync", "send", "sendAsync")
IDEMPOTENT = {"GET", "HEAD", "PUT", "DELETE", "OPTIONS", "TRACE"}

EXPLANATION = (
    "At which byte the peer fails is the property's quantifier; decided statically is the shape of the retry/eviction logic in "
    "http_client.hpp. R1 the retry decision is a pure function of (method, the exception just caught): every variable in the condition "
    "that guards the re-throw is defined inside that handler from isIdempotentMethod(method) and a dynamic_cast of the handler's own "
    "exception — nothing carried over from an earlier attempt — and the back edge of the retry loop is reached only with "
    "idempotent ∨ not-sent; the HttpFramingError handler has no path back into the loop. R2 the idempotent set is a subset of RFC 9110 "
    "§9.2.2 compared exactly. R3 HttpRequestNotSentError is constructed only where no send call can have executed: not reachable from "
    "any sendSync/send/sendAsync in executeRequest, and the try region it wraps reaches no send through the call graph. R4 the attempt "
    "counter starts at 0, is incremented once per back edge behind the false edge of `attempt >= retries`. R5 after the send every "
    "failure path evicts the connection (catch-all → dropConnection → rethrow; send failure → dropConnection); on the normal path, at every "
    "return, `dropConnection was called` ∨ (reuse switch ∧ ¬close signal ∧ ¬surplus flag ∧ ¬close-delimited ∧ nothing pending in the transport ∧ "
    "left in Sync read mode while it waits in the cache) — decided over paths, whether the conditions are one conjunction, nested ifs or a guard-clause helper; "
    "frameResponse flags every surplus-bytes edge. R6 lock table and lease: cache and lease set under HttpClient::_mutex, the lease "
    "object is created before the connection is acquired. R7 every blocking transport call gets a configured timeout, is made without "
    "_mutex, and the timeout arm of the receive loop throws.")
# exempt from the function-inventory guard (report.py): these rules hold for, or look into, functions they have never seen — and answer
# 'analysis broken' themselves where a helper hides what they need (see the AnalysisBroken raises in each)
FOLLOWS_HELPERS = {"C17-R1": "boolean helpers called in the retry handler are summarised over the same atoms (Abs) and must be functions of their arguments (param_pure); a helper that decides in another form is a refusal",
                   "C17-R3": "sends and not-sent origins are closed over the client's call graph (calls_reaching): a helper that transmits / can throw not-sent counts at its call site, and every function with a throw site is checked on its own",
                   "C17-R5": "the keep-or-evict decision is decided on paths with boolean helpers summarised (Abs) and always-evicting helpers recognised (must_drop); a helper that evicts on some paths only is a refusal",
                   "C17-R6": "guarded-by is universal per access site; the lease-before-connection order follows the client's helpers down to acquireConnection (calls_reaching)",
                   "C17-R7": "universal: every blocking transport call in http_client.hpp, wherever it is, needs a configured timeout and no client mutex; the receive loop moved out of executeRequest is a refusal",
                   "C17-R8": "universal: every function of the client that returns a cache entry's session id must be behind a positive probe; a token comparison delegated to a helper is a refusal"}
NOT_DECIDED = ["at which byte the peer failed", "that sendSync returning an error implies nothing was written (it does not; the code treats it as possibly sent)", "wall-clock accuracy of the transport's timeouts (C03)"]


def is_notsent_cast(n):
    """dynamic_cast<const HttpRequestNotSentError *>(&exception)"""
    while n is not None and n.get("k") == "cast":
        if "HttpRequestNotSentError" in (n.get("t") or ""):
            return True
        n = n.get("v")
    return False


def unwrap(n):
    """look through casts and single-argument conversions (duration(x), BufferView{…})"""
    while True:
        n = strip_casts(strip_wrappers(n)) if n is not None else None
        if n is not None and n.get("k") == "ctor" and len([a for a in n.get("args", []) if not a.get("def")]) == 1:
            n = [a for a in n["args"] if not a.get("def")][0]
            continue
        return n


# ------------------------------------------------------------------ shared: the client's own helper functions, seen through their calls

def subst(n, table, tag=None):
    """copy of an expression tree of a callee in which every parameter whose declaration id is in `table` is replaced by table[id] (the
    caller's argument); untouched sub-trees are shared.  Declaration ids are per function, so the callee's own locals are re-labelled
    (tag, id): after the substitution a caller's id can never be mistaken for a callee's local that happens to have the same number."""
    if not isinstance(n, dict):
        return n
    if n.get("k") == "var" and n.get("parm") is not None and n.get("d") in table:
        return table[n["d"]]
    out = None
    if tag is not None and isinstance(n.get("d"), int) and (n.get("k") == "var" or ("k" not in n and "n" in n)):
        out = dict(n)
        out["d"] = (tag, n["d"])
    for k, v in n.items():
        if isinstance(v, dict):
            nv = subst(v, table, tag)
            if nv is not v:
                out = out or dict(n)
                out[k] = nv
        elif isinstance(v, list):
            nl = [subst(x, table, tag) for x in v]
            if any(a is not b for a, b in zip(nl, v)):
                out = out or dict(n)
                out[k] = nl
    return out or n


def hc_callee(fb, n):
    """the member function of HttpClient (with a body in http_client.hpp) that a call node resolves to, else None"""
    if not isinstance(n, dict) or n.get("k") not in ("call", "mcall"):
        return None
    c = n.get("callee") or ""
    if not c.startswith(HC + "::"):
        return None
    gs = [g for g in fb.funcs(c, HCF) if g.ok and len(g.params) == len(n.get("args", []))]
    return gs[0] if len(gs) == 1 else None


def bind(g, call):
    """parameter declaration id of g -> argument expression of the call"""
    return {p["d"]: a for p, a in zip(g.params, call.get("args", []))}


def calls_reaching(fb, f, pred, _memo=None):
    """stmt elements of f that satisfy pred(elem), or that are calls to a member function of HttpClient in which such an element is
    reachable through the call graph (the client's own helpers are followed; nothing else is).  Pass one dict as _memo per predicate."""
    memo = _memo if _memo is not None else {}

    def reaches(g):
        if g.sig in memo:
            return memo[g.sig]
        memo[g.sig] = False
        res = False
        for e in g.stmts():
            if pred(e):
                res = True
                break
            h = hc_callee(fb, e.node)
            if h is not None and reaches(h):
                res = True
                break
        memo[g.sig] = res
        return res
    out = []
    for e in f.stmts():
        if pred(e):
            out.append(e)
        else:
            h = hc_callee(fb, e.node)
            if h is not None and reaches(h):
                out.append(e)
    return out


def call_tree(fb, root):
    """root and the member functions of HttpClient reachable from it through calls"""
    out, work = {}, [root]
    while work:
        g = work.pop()
        if g.sig in out:
            continue
        out[g.sig] = g
        for e in g.stmts():
            h = hc_callee(fb, e.node)
            if h is not None:
                work.append(h)
    return list(out.values())


def is_transport_call(e):
    """a call on the transport that belongs to the exchange (connect / send / receive)"""
    n = e.node if e.kind == "stmt" else {}
    return n.get("k") == "mcall" and "Transport::" in n.get("callee", "") and last(n.get("callee", "")) in SENDS + ("receiveSync", "connectSync")


def is_transport_send(e):
    n = e.node
    return n.get("k") == "mcall" and last(n.get("callee", "")) in SENDS and "Transport" in n.get("callee", "")


def var_initialised_by(f, call_elem):
    """declaration id of the local that is initialised with (or assigned) the value of the given call element, else None"""
    for e in f.stmts():
        n = e.node
        if n.get("k") == "decl":
            for v in n["vars"]:
                i = v.get("init")
                if i is not None and unwrap_copy(i) is call_elem.node:
                    return v["d"]
        a = asg(n)
        if a and unwrap_copy(a[1]) is call_elem.node and strip_casts(a[0]).get("k") == "var":
            return strip_casts(a[0])["d"]
    return None


def unwrap_copy(n):
    """look through casts and the copy/move construction that initialises a variable from a call's result"""
    while True:
        n = strip_casts(strip_wrappers(n)) if n is not None else None
        if n is not None and n.get("k") == "ctor" and n.get("copy") and len([a for a in n.get("args", []) if not a.get("def")]) == 1:
            n = [a for a in n["args"] if not a.get("def")][0]
            continue
        return n


def is_var(n, d):
    n = strip_casts(strip_wrappers(n)) if n is not None else None
    return n is not None and n.get("k") == "var" and n.get("d") == d


def _dnf(atoms, mask):
    full = (1 << (1 << len(atoms))) - 1
    if mask & full == full:
        return T
    out = F
    for a in range(1 << len(atoms)):
        if mask >> a & 1:
            out = Or(out, And(*[A(x) if a >> i & 1 else Not(A(x)) for i, x in enumerate(atoms)]))
    return out


class Abs:
    """A5 predicate abstraction that sees through the client's own boolean helper functions.  A call `h(args)` met in a condition stands
    for the set of atom valuations under which h can return true (and false): the same abstraction is run over h's body with h's
    parameters replaced by the caller's arguments, and the states at its `return`s are collected.  So `if (!retryIsSafe(method, e))`
    and a guard-clause helper `connectionReusable(resp, framing, evict, sid)` mean what their bodies mean — whatever they are called.

    atoms      : names of the vocabulary
    leaf       : node -> formula|None in the CALLER's terms (parameters of a helper are substituted before it is asked)
    effects    : (node, elem) -> ops|None, likewise
    call_atoms : atoms that mean 'the latest evaluation of <call> returned true': havocked where the call is (re-)evaluated"""

    def __init__(self, fb, atoms, leaf, effects=None, call_atoms=()):
        self.fb, self.atoms, self.leaf0, self.eff0 = fb, list(atoms), leaf, effects
        self.call_atoms = set(call_atoms)
        self._sum, self._stack, self.seen, self.helpers = {}, [], set(), []

    def leaf(self, n):
        r = self.leaf0(n)
        if r is not None:
            self.seen |= atoms_of(r)
            return r
        g = hc_callee(self.fb, n)
        if g is not None and n.get("t") == "bool":
            s = self.summary(g, n)
            if s is not None:
                return s[0]
        return None

    def effects(self, e):
        ops = []
        if e.kind == "stmt":
            n = e.node
            ops += list((self.eff0(n, e) if self.eff0 else None) or [])
            if n.get("k") in ("call", "mcall"):
                r = self.leaf0(n)
                if r is not None:
                    ops += [("havoc", a) for a in sorted(atoms_of(r) & self.call_atoms)]
                else:
                    g = hc_callee(self.fb, n)
                    s = self.summary(g, n) if g is not None and n.get("t") == "bool" else None
                    if s is not None:
                        ops += [("havoc", a) for a in sorted(s[1])]
        elif self.eff0:
            ops += list(self.eff0(None, e) or [])
        return ops

    def summary(self, g, call):
        """(formula for 'the call returned true', call-atoms evaluated inside) or None when g cannot be summarised"""
        k = id(call)
        if k in self._sum:
            return self._sum[k][1]
        res = None
        if g.sig not in self._stack and len(self._stack) < 4:
            self._stack.append(g.sig)
            try:
                res = self._summarise(g, call)
            finally:
                self._stack.pop()
        self._sum[k] = (call, res)      # (the node is kept alive: its id is the key)
        return res

    def _summarise(self, g, call):
        table = bind(g, call)
        # a helper that assigns to one of its parameters is not summarised: through a reference it changes the caller's state, and by
        # value the parameter stops standing for the caller's argument
        for e in g.stmts():
            a = asg(e.node)
            lhs = strip_casts(a[0]) if a else (strip_casts(e.node["v"]) if e.node.get("k") == "un" and ("++" in e.node.get("op", "") or "--" in e.node.get("op", "")) else None)
            while lhs is not None and lhs.get("k") == "member":
                lhs = strip_casts(lhs.get("b"))
            if lhs is not None and lhs.get("k") == "var" and lhs.get("parm") is not None:
                return None
        rets = common.returns(g)
        if not rets:
            return None
        cache = {}

        def sub(x):
            if id(x) not in cache:
                cache[id(x)] = (x, subst(x, table, g.sig))
            return cache[id(x)][1]
        touched = set()

        def leaf(x):
            r = self.leaf(sub(x))
            if r is not None:
                touched.update(atoms_of_any(r) & self.call_atoms)
            return r

        def eff(e):
            if e.kind != "stmt":
                return None
            ops = []
            sn = sub(e.node)
            if self.eff0:
                ops += list(self.eff0(sn, e) or [])
            if sn.get("k") in ("call", "mcall"):
                r0 = self.leaf0(sn)
                if r0 is not None:
                    ops += [("havoc", a) for a in sorted(atoms_of(r0) & self.call_atoms)]
            return ops
        pa = PredAbs(g, Vocab(self.atoms), leaf, eff, track_bools=True, eh=False)
        nb = len(self.atoms)
        low = (1 << nb) - 1

        def project(st):
            m = 0
            for a in range(pa.v.size):
                if st >> a & 1:
                    m |= 1 << (a & low)
            return m
        st_t = st_f = 0
        for e in rets:
            st = pa.before(e)
            if st is None:
                continue
            v = e.node.get("v")
            cv = const_value(strip_casts(v)) if v is not None and strip_casts(v).get("k") == "bool" else None
            fm = (T if cv else F) if cv is not None else translate(v, pa.leaf)
            st_t |= project(pa.v.assume(st, known_when(fm, True)))
            st_f |= project(pa.v.assume(st, known_when(fm, False)))
        self.helpers.append(g)
        ft = _dnf(self.atoms, st_t)
        if st_t & st_f == 0:
            return (ft, touched)                       # exact: the result is a function of the atoms
        return (("and?", ft, None), touched)           # true ⇒ ft; false ⇒ nothing known

    def run(self, f, **kw):
        return PredAbs(f, Vocab(self.atoms), self.leaf, self.effects, **kw)


def atoms_of_any(fm, acc=None):
    """atoms of a formula that may contain the partial connectives of predabs.translate"""
    acc = set() if acc is None else acc
    if fm is None:
        return acc
    if fm[0] == "a":
        acc.add(fm[1])
    elif fm[0] in ("not",):
        atoms_of_any(fm[1], acc)
    elif fm[0] in ("and", "or", "and?", "or?"):
        atoms_of_any(fm[1], acc)
        atoms_of_any(fm[2], acc)
    return acc


def param_pure(fb, g, seen=None, scope=None):
    """why g's result is NOT a function of its arguments alone (it reads a static, a global, or a member of the client that the retry
    loop's own call tree writes — state that can differ between two attempts of one call — or calls something that does), or None.
    Used for 'the retry decision depends on nothing carried over from an earlier attempt'.  scope: the functions whose writes count."""
    seen = seen if seen is not None else set()
    if g.sig in seen:
        return None
    seen.add(g.sig)
    if scope is None:
        scope = [f_ for root in fb.funcs(HC + "::performRequest", HCF) if root.ok for f_ in call_tree(fb, root)]
    own = {p["d"] for p in g.params}
    for n in g.nodes.values():
        if n.get("k") == "decl":
            for v in n.get("vars", []):
                if v.get("static"):
                    return "%s keeps the static `%s` across calls" % (last(g.name), v["n"])
                own.add(v["d"])
    for n in g.nodes.values():
        k = n.get("k")
        if k == "member" and (n.get("b") or {}).get("k") == "this" and any(common.field_writes(f_, n["n"]) for f_ in scope):
            return "%s reads the client's member `%s`, which is written while the request is being attempted" % (last(g.name), last(n["n"]))
        if k == "gvar":
            return "%s reads the global `%s`" % (last(g.name), short(n["n"]))
        if k == "var" and n.get("d") not in own and n.get("parm") is None:
            return "%s reads `%s`" % (last(g.name), n["n"])
        if k in ("call", "mcall") and (n.get("callee") or "").startswith(HC + "::") and last(n["callee"]) != "isIdempotentMethod":
            h = hc_callee(fb, n)
            if h is None:
                return "%s calls %s, which has no body here" % (last(g.name), last(n["callee"]))
            why = param_pure(fb, h, seen, scope)
            if why:
                return why
    return None


def r1(ctx, r):
    fb = ctx.fb()
    p = fn(ctx, HC, "performRequest", HCF)
    ex = [e for e in p.stmts() if e.node.get("k") == "mcall" and last(e.node.get("callee", "")) == "executeRequest"]
    if len(ex) != 1 or not ex[0].try_id:
        raise AnalysisBroken("performRequest: executeRequest call not found inside a try")
    tid = ex[0].try_id
    hs = [b for b in p.blocks.values() if b.label and b.label.get("k") == "catch" and b.label.get("try") == tid]
    if len(hs) < 1:
        raise AnalysisBroken("performRequest: %d handlers" % len(hs))
    fr = [b for b in hs if "HttpFramingError" in b.label.get("t", "")]
    gen = [b for b in hs if "std::exception" in b.label.get("t", "") or b.label.get("t") == "..."]
    if any("HttpRequestNotSentError" in b.label.get("t", "") for b in hs):
        raise AnalysisBroken("performRequest: not-sent failures are classified by a catch clause of their own; the rule reads the dynamic_cast form (one generic handler) only")
    # handler order: the framing handler is tried first
    order = p.trys[tid]["handlers"]
    r.instance()
    r.expect(len(fr) == 1 and gen and [i for i, h in enumerate(order) if "HttpFramingError" in h][0] < [i for i, h in enumerate(order) if "std::exception" in h or h == "..."][0], p, None, "framing handler order",
             "there is no HttpFramingError handler ahead of the generic one (handlers: %s): deterministic framing errors fall into the retry logic" % ", ".join(order), okdesc="handlers: %s" % ", ".join(order))
    if not gen:
        raise AnalysisBroken("performRequest: no generic handler")
    r.instance()
    if fr:
        w = search(p, ("block", fr[0].id), lambda x: x is ex[0], eh=False)
        r.expect(w is None, p, None, "framing error retried", "the HttpFramingError handler can reach executeRequest again: a deterministic framing error is retried (and a non-idempotent request re-sent)",
                 witness=witness_str(p, w), okdesc="framing handler ends in throw")
    # the generic handler: decision variables
    g = gen[0]
    hblocks = set()
    work = [g.id]
    while work:
        b = work.pop()
        if b in hblocks or b is None:
            continue
        hblocks.add(b)
        for s in p.blocks[b].succs:
            if s is not None and not any(x is ex[0] for x in p.blocks[s].elems) and s != ex[0].block.id:
                work.append(s)
    exc_d = g.label.get("d")            # the declaration of the handler's exception object (fresh at every handler entry)
    method_d = param_decl(p, "method")
    counter_d, counter_n = retry_counter(p)
    rethrows = [e for e in p.stmts() if e.block.id in hblocks and e.node.get("k") == "throw" and "root" in e.raw]
    backs = [e for e in p.stmts() if e.block.id in hblocks and ((e.node.get("k") == "un" and "++" in e.node.get("op", "") and is_var(e.node["v"], counter_d)) or
                                                             (e.node.get("k") == "bin" and e.node.get("op") == "+=" and is_var(e.node["lhs"], counter_d)) or (asg(e.node) and is_var(asg(e.node)[0], counter_d)))]
    if len(backs) != 1 or len(rethrows) < 2:
        raise AnalysisBroken("performRequest: %d increments of the attempt counter `%s`, %d rethrows in the generic handler" % (len(backs), counter_n, len(rethrows)))
    # variables read by the conditions that decide between rethrow and retry
    conds = [b for b in p.blocks.values() if b.id in hblocks and b.cond is not None]
    decision_vars = {}
    for b in conds:
        for x in walk(b.cond):
            # (the caught exception object is fresh in every handler entry: a condition may read it directly, e.g. when the
            # named flag it was stored in is spelled out in the `if`)
            if x.get("k") == "var" and x.get("parm") is None and x.get("d") not in (counter_d, exc_d):
                decision_vars[x["n"]] = x.get("d")

    def defs_of(d):
        out = []
        for e in p.stmts():
            if e.node.get("k") == "decl":
                for v in e.node["vars"]:
                    if v.get("d") == d:
                        out.append((e, v.get("init")))
            a = asg(e.node)
            if a and is_var(a[0], d):
                out.append((e, a[1]))
        return out

    def carried(name, d, visiting):
        """why the value of local `name` is not a function of (method, exception just caught) alone — (element, reason) — or None.  Locals it
        is computed from are followed (`const bool ns = cast; const bool ok = idem || ns;`), and so are the client's own helper functions
        it calls, which must be functions of their arguments."""
        defs = defs_of(d)
        if not defs:
            return (None, "no definition found")
        for (e, rhs) in defs:
            if e.block.id not in hblocks:
                return (e, "it is (also) defined outside the handler, at line %d, i.e. before the attempt that just failed" % e.line)
            if rhs is None:
                return (e, "defined without a value")
            why = impure(rhs, name, d, visiting)
            if why:
                return (e, why)
        return None

    def impure(rhs, name, d, visiting, calls_only=False):
        for x in walk(rhs):
            if not calls_only and x.get("k") == "var" and d is not None and x.get("d") == d:
                return "its new value depends on its value from an earlier attempt (`%s`)" % show(rhs)[:70]
            if not calls_only and x.get("k") == "var" and x.get("parm") is None and x.get("d") not in (d, exc_d):
                if x.get("d") == counter_d:
                    return "it depends on the attempt counter `%s`, which is not the method or the exception just caught" % x["n"]
                if x.get("d") in visiting:
                    continue
                sub_ = carried(x["n"], x.get("d"), visiting | {x.get("d")})
                if sub_:
                    return "it depends on `%s`, and %s" % (x["n"], sub_[1])
            if x.get("k") in ("call", "mcall") and last(x.get("callee", "")) not in ("isIdempotentMethod",):
                h = hc_callee(fb, x)
                if h is None:
                    return "it calls %s" % last(x.get("callee", ""))
                why = param_pure(fb, h)
                if why:
                    return "it calls %s, and %s — state that outlives the attempt" % (last(h.name), why)
        return None
    r.instance(max(1, len(decision_vars)))
    for name, d in sorted(decision_vars.items()):
        res = carried(name, d, {d})
        r.expect(res is None, p, res[0] if res else None, "retry decision carried over: %s" % name, "the retry decision reads `%s`, and %s: a not-sent (or otherwise retryable) classification of an EARLIER attempt makes a later attempt "
                 "that did transmit the request eligible for another retry — a POST is submitted twice" % (name, res[1] if res else ""), okdesc="`%s` computed in the handler from (method, current exception)" % name)
    if not decision_vars:
        r.ok("decision conditions use no carried variable")
    # the client's own functions called directly in the deciding conditions (`if (!retryIsSafe(method, e))`) are functions of their
    # arguments: no member, static or global that outlives the attempt
    for b in conds:
        hc_calls = [x for x in walk(b._raw_cond()) if x.get("k") in ("call", "mcall") and hc_callee(fb, x) is not None and last(x.get("callee", "")) != "isIdempotentMethod"]
        for x in hc_calls:
            r.instance()
            why = param_pure(fb, hc_callee(fb, x))
            r.expect(why is None, p, None, "retry decision carried over: %s" % last(x["callee"]), "the retry decision calls %s, and %s: state that outlives the attempt that just failed decides whether the request is sent again"
                     % (last(x["callee"]), why), okdesc="%s is a function of its arguments" % last(x["callee"]))
    # back edge only with idempotent ∨ not-sent

    def leaf(n):
        if n.get("k") in ("call", "mcall") and last(n.get("callee", "")) == "isIdempotentMethod" and (n.get("callee") or "").startswith(HC + "::") and len(n["args"]) == 1 and is_var(n["args"][0], method_d):
            return A("idem")
        cp = common.cmp_parts(n)
        if cp and cp[0] in ("!=", "==") and is_notsent_cast(cp[1]) and strip_casts(cp[2]).get("k") in ("null", "nullptr", "int", "zero"):
            # … of THIS handler's exception object (a pointer to an exception saved from an earlier attempt proves nothing about this one)
            o = strip_casts(cp[1])
            if o is not None and o.get("k") == "un" and o.get("op") == "&" and is_var(o.get("v"), exc_d):
                return A("ns") if cp[0] == "!=" else Not(A("ns"))
        return None

    def effects(n, e):
        # a new exception is caught: the not-sent fact is about THIS exception
        if e is ex[0]:
            return [("havoc", "ns")]
        return None
    ab = Abs(fb, ["idem", "ns"], leaf, effects)
    pa = ab.run(p, track_bools=True)
    entailed = pa.entails(backs[0], Or(A("idem"), A("ns")))
    if not entailed:
        # helpers called in the handler that were not summarised (not boolean, recursive, writing through a reference) but take part in
        # the decision — they throw, or look at the method / the exception type: the rule cannot say what the handler decides
        def decides(e):
            return (e.node.get("k") == "throw" and "root" in e.raw) or any(is_notsent_cast(x) for x in walk(e.node) if x.get("k") == "cast") or \
                (e.node.get("k") in ("call", "mcall") and last(e.node.get("callee", "")) == "isIdempotentMethod")
        opaque = [e for e in calls_reaching(fb, p, decides) if e.block.id in hblocks and hc_callee(fb, e.node) is not None and last(e.node["callee"]) != "isIdempotentMethod" and ab.summary(hc_callee(fb, e.node), e.node) is None]
        lam = [e for e in p.stmts() if e.block.id in hblocks and e.node.get("k") == "opcall" and e.node.get("op") == "()" and "$lambda" in (e.node.get("callee") or "")]
        if lam and not opaque:
            raise AnalysisBroken("performRequest: the retry decision is taken by a local lambda, which the rule does not follow")
        if opaque:
            raise AnalysisBroken("performRequest: the retry decision is (partly) taken inside %s, in a form the rule does not follow (not a boolean function of its arguments)" % last(opaque[0].node["callee"]))
    r.instance()
    r.expect(entailed, p, backs[0], "retry of a possibly-sent non-idempotent request", "the retry loop's back edge (the increment of `%s`) is reachable with neither `isIdempotentMethod(method)` nor "
             "'the exception just caught is HttpRequestNotSentError' established (%s)" % (counter_n, ", ".join(pa.describe(backs[0]))), okdesc="back edge ⇒ idempotent ∨ not-sent(current exception)%s" % ((" (through %s)" % ", ".join(sorted({last(h.name) for h in ab.helpers}))) if ab.helpers else ""))
    # the two atoms are still what the decision is made of (in the handler itself or in the helpers it calls)
    scope = [p] + list(ab.helpers)
    r.instance()
    r.expect(entailed or any(x.get("k") in ("call", "mcall") and last(x.get("callee", "")) == "isIdempotentMethod" for f_ in scope for x in f_.nodes.values()) and
             any(is_notsent_cast(x) for f_ in scope for e in f_.stmts() if f_ is not p or e.block.id in hblocks for x in walk(e.node) if x.get("k") == "cast"), p, None,
             "retry atoms", "the retry predicate no longer consists of isIdempotentMethod(method) and the dynamic_cast of the caught exception", okdesc="atoms: isIdempotentMethod(method), dynamic_cast<NotSent>(&e)")


def param_decl(f, name, type_is=None):
    """declaration id of a parameter of an anchored function: the only one whose type satisfies type_is when that is unambiguous (a rename
    changes nothing), else the one called `name` (parameter names are the anchor table of last resort, C17-R0)"""
    if type_is is not None:
        ds = [p["d"] for p in f.params if type_is(p["t"].replace(" ", ""))]
        if len(ds) == 1:
            return ds[0]
    ds = [p["d"] for p in f.params if p.get("n") == name]
    if len(ds) != 1:
        raise AnalysisBroken("%s: no parameter named `%s`" % (short(f.name), name))
    return ds[0]


INT_T = lambda t: t in ("int", "unsignedint", "constint", "size_t", "unsignedlong", "std::size_t")
MUT_STRING_REF = lambda t: t.startswith("std::basic_string<char") and t.endswith("&") and not t.startswith("const")


def retry_counter(p):
    """(declaration id, name) of the attempt counter of performRequest: the local that is compared with the `retries` parameter — derived
    from that comparison, whatever the local is called"""
    rd = param_decl(p, "retries", INT_T)
    found = {}
    for b in p.blocks.values():
        co = common.cmp_oriented(b.cond, lambda x: is_var(x, rd)) if b.cond is not None else None
        if co:
            l = strip_casts(co[1])
            if l is not None and l.get("k") == "var" and l.get("parm") is None:
                found[l["d"]] = l["n"]
    if len(found) != 1:
        raise AnalysisBroken("performRequest: %d locals are compared with `retries` (expected one attempt counter)" % len(found))
    return list(found.items())[0]


def r2(ctx, r):
    f = fn(ctx, HC, "isIdempotentMethod", HCF)
    lits = []
    for e in f.stmts():
        cp = common.cmp_parts(e.node)
        if cp and cp[0] == "==" and len(f.params) == 1 and is_var(strip_views(cp[1]), f.params[0]["d"]):
            lits += [x.get("v") for x in walk(cp[2]) if x.get("k") == "str"]
    # table form: a local array / initializer list of string literals searched with an <algorithm> call — any_of / find_if / count_if with
    # a lambda that is exactly `method == element` (either way round), or find / count with the method itself as the value
    md = f.params[0]["d"] if len(f.params) == 1 else None
    tables = {v["d"]: [x.get("v") for x in v["init"].get("vals", [])] for e in f.stmts() if e.node.get("k") == "decl" for v in e.node["vars"]
              if isinstance(v.get("init"), dict) and v["init"].get("k") == "ilist" and v["init"].get("vals") and all(x.get("k") == "str" for x in v["init"]["vals"])}
    for e in f.stmts():
        n = e.node
        if n.get("k") != "call" or last(n.get("callee", "")) not in ("any_of", "find_if", "count_if", "find", "count") or not (n.get("callee") or "").startswith("std::") or len(n["args"]) != 3:
            continue
        tds = {x["d"] for a in n["args"][:2] for x in walk(a) if x.get("k") == "var" and x.get("d") in tables}
        if len(tds) != 1:
            continue
        third = strip_casts(strip_wrappers(n["args"][2]))
        exact = False
        if last(n["callee"]) in ("find", "count"):
            exact = md is not None and is_var(strip_views(third), md)
        elif third is not None and third.get("k") == "lambda":
            lf = [lf_ for (ln, lf_) in f.lambdas if lf_.name == third.get("fn") and lf_.ok]
            caps = {c["n"] for c in third.get("caps", []) if c.get("d") == md}
            rets = common.returns(lf[0]) if len(lf) == 1 else []
            if len(rets) == 1 and len(lf[0].params) == 1 and len(list(lf[0].stmts())) >= 1:
                cp = common.cmp_parts(strip_casts(rets[0].node.get("v") or {}))
                if cp and cp[0] == "==":
                    sides = [strip_views(cp[1]), strip_views(cp[2])]
                    is_cap = lambda x: x is not None and x.get("k") == "var" and x.get("cap") and x.get("n") in caps
                    is_el = lambda x: x is not None and x.get("k") == "var" and x.get("parm") == 0 and not x.get("cap")
                    exact = (is_cap(sides[0]) and is_el(sides[1])) or (is_cap(sides[1]) and is_el(sides[0]))
        if exact:
            lits += tables[list(tds)[0]]
    lits = sorted(set(lits))
    if not lits:
        raise AnalysisBroken("isIdempotentMethod: no compared literals found")
    r.instance(len(lits))
    for l in lits:
        r.expect(l in IDEMPOTENT, f, None, "method %s" % l, "isIdempotentMethod treats `%s` as idempotent; RFC 9110 §9.2.2 lists %s" % (l, ", ".join(sorted(IDEMPOTENT))), okdesc="%s is idempotent" % l)
    r.instance()
    calls = {last(x.get("callee", "")) for g in [f] + [lf_ for (ln, lf_) in f.lambdas if lf_.ok] for e in g.stmts() for x in walk(e.node) if x.get("k") in ("call", "mcall")}
    r.expect(not (calls & {"tolower", "toupper", "strcasecmp", "ciEquals", "transform"}), f, None, "case-insensitive method", "isIdempotentMethod compares case-insensitively (the method token is case-sensitive; `get` is not GET)", okdesc="exact comparison")


def r3(ctx, r):
    fb = ctx.fb()
    n = 0

    def throws_ns(e):
        return e.node.get("k") == "throw" and "root" in e.raw and "HttpRequestNotSentError" in show(e.node)
    # one exchange = executeRequest and the client's helpers it calls: inside it a call to a helper that can throw not-sent is as good
    # as the throw itself, and a call to a helper that transmits is as good as the send itself (the retry loop around it is C17-R1's)
    exchange = {g.sig for g in call_tree(fb, fn(ctx, HC, "executeRequest", HCF))}
    m_send, m_ns = {}, {}
    for f in fb.in_file(HCF):
        if not f.ok:
            continue
        sends = calls_reaching(fb, f, is_transport_send, m_send)
        origins = calls_reaching(fb, f, throws_ns, m_ns) if f.sig in exchange else [e for e in f.stmts() if throws_ns(e)]
        for e in origins:
            n += 1 if throws_ns(e) else 0
            r.instance()
            w = None
            for s in sends:
                w = search(f, s, lambda x: x is e, eh=True)
                if w is not None:
                    break
            what = "throws HttpRequestNotSentError" if throws_ns(e) else "calls %s (which can throw HttpRequestNotSentError)" % last(e.node.get("callee", ""))
            r.expect(w is None, f, e, "not-sent claimed after a send", "%s %s at a point reachable from `%s` (line %d): the request may already be on the wire, yet the retry loop treats the failure as "
                     "provably unsent and re-sends a non-idempotent request" % (last(f.name), what, show(s.node)[:40] if w is not None else "", s.line if w is not None else 0), witness=witness_str(f, w),
                     okdesc="%s: not-sent %s where no send can have run" % (last(f.name), "thrown" if throws_ns(e) else "can come out of %s" % last(e.node.get("callee", ""))))
            # the region this handler wraps reaches no send
            if throws_ns(e) and e.catch_id:
                region = [x for x in f.stmts() if x.try_id == e.catch_id or (f.trys.get(x.try_id, {}).get("parent") == e.catch_id)]
                r.instance()
                bad = [x for x in region if x in sends]
                r.expect(not bad, f, bad[0] if bad else None, "send inside the not-sent region", "the try block whose failures are re-labelled 'not sent' contains `%s`, which transmits" % (show(bad[0].node)[:50] if bad else ""),
                         okdesc="wrapped region reaches no send (%d calls checked)" % len([x for x in region if x.node.get("k") in ("call", "mcall")]))
    if n < 1:
        raise AnalysisBroken("no construction of HttpRequestNotSentError found")
    # nothing else derives from it / aliases it in a way that widens the claim
    rec = [k for k in fb.records if k.endswith("HttpRequestNotSentError")]
    r.instance()
    r.expect(len(rec) == 1, HC, None, "not-sent type", "HttpRequestNotSentError is not a single distinct type", okdesc="one not-sent exception type")


def r4(ctx, r):
    p = fn(ctx, HC, "performRequest", HCF)
    ex = [e for e in p.stmts() if e.node.get("k") == "mcall" and last(e.node.get("callee", "")) == "executeRequest"]
    if any(b.label and b.label.get("k") == "catch" and "HttpRequestNotSentError" in b.label.get("t", "") for b in p.blocks.values()):
        raise AnalysisBroken("performRequest: not-sent failures have a catch clause of their own; the budget rule reads the single-handler form only")
    # the attempt counter is whatever local is compared with `retries` (derived, not named)
    cd, cn = retry_counter(p)
    rd = param_decl(p, "retries", INT_T)
    decl = [v for e in p.stmts() if e.node.get("k") == "decl" for v in e.node["vars"] if v.get("d") == cd]
    incs = [e for e in p.stmts() if (e.node.get("k") == "un" and ("++" in e.node.get("op", "") or "--" in e.node.get("op", "")) and is_var(e.node["v"], cd)) or (asg(e.node) and is_var(asg(e.node)[0], cd)) or
            (e.node.get("k") == "bin" and e.node.get("op") in ("+=", "-=") and is_var(e.node["lhs"], cd))]
    if not incs and any(x.get("k") in ("call", "mcall") and any(is_var(a, cd) for a in x.get("args", [])) and hc_callee(ctx.fb(), x) is not None and
                        (hc_callee(ctx.fb(), x).params[[i for i, a in enumerate(x["args"]) if is_var(a, cd)][0]]["t"].rstrip().endswith("&")) for x in p.nodes.values()):
        raise AnalysisBroken("performRequest: the attempt counter `%s` is passed by reference to a helper; its increments are not in performRequest" % cn)
    r.instance()
    def by_one(e):
        """++c, c++, c += 1, c = c + 1 (either operand order)"""
        n = e.node
        if n.get("k") == "un":
            return "++" in n.get("op", "")
        if n.get("k") == "bin" and n.get("op") == "+=":
            return const_value(strip_casts(n["rhs"])) == 1
        a = asg(n)
        rhs = strip_casts(a[1]) if a else None
        return rhs is not None and rhs.get("k") == "bin" and rhs.get("op") == "+" and sorted([is_var(rhs["lhs"], cd) or const_value(strip_casts(rhs["lhs"])), is_var(rhs["rhs"], cd) or const_value(strip_casts(rhs["rhs"]))], key=str) in ([1, True], [True, 1])
    r.expect(len(decl) == 1 and "&" not in (decl[0].get("t") or "") and const_value(strip_casts(decl[0].get("init") or {})) == 0 and len(incs) == 1 and by_one(incs[0]), p, incs[0] if incs else None, "attempt counter",
             "`%s`, the local compared with the retry budget, does not start at 0 with exactly one increment" % cn, okdesc="%s = 0; one increment" % cn)
    def budget_test(b):
        """(op, counter, retries) of `counter OP retries`, whichever way round the source writes it"""
        co = common.cmp_oriented(b.cond, lambda x: is_var(x, rd)) if b.cond is not None else None
        return co if co and is_var(co[1], cd) else None
    gb = [b for b in p.blocks.values() if budget_test(b)]
    r.instance()
    ok = len(gb) == 1 and len(incs) == 1 and len(ex) == 1
    if ok:
        op = budget_test(gb[0])[0]
        # `counter >= retries` → exhausted on the true edge; the same test spelled `counter < retries` → exhausted on the false edge
        exhausted, cont = {">=": (0, 1), "<": (1, 0)}.get(op, (0, 1))
        ok = op in (">=", "<") and gb[0].succs[exhausted] is not None and dominated_by_edge(p, incs[0], gb[0], cont, eh=True)
        # the only way back to executeRequest passes the increment
        ok = ok and search(p, ex[0], lambda x: x is ex[0], stop=lambda x: x is incs[0], eh=True) is None
        tb = p.blocks[gb[0].succs[exhausted]] if ok else None
        ok = ok and any(e.kind == "stmt" and e.node.get("k") == "throw" for e in _reach_until_ret(p, tb.id))
    r.expect(ok, p, incs[0] if incs else None, "retry budget", "another attempt is possible without passing the false edge of `%s >= retries` and the single increment: more than retries+1 attempts" % cn, okdesc="at most retries+1 executions of executeRequest")
    # the loop re-declares nothing that resets the counter; decl dominates the loop
    r.instance()
    de = [e for e in p.stmts() if e.node.get("k") == "decl" and any(v.get("d") == cd for v in e.node["vars"])]
    r.expect(de and ex and search(p, ex[0], lambda x: x is de[0], eh=True) is None, p, None, "counter reset", "`%s` is re-initialised inside the loop" % cn, okdesc="counter declared before the loop")


def probe_table(ctx):
    """methods of the client that ask the transport, without waiting, whether anything is there (zero-timeout receiveSync):
    qualified name -> 'pending' (true unless Timeout) | 'quiet' (true only for Timeout) | 'unknown'"""
    if getattr(ctx, "_c17_probes", None) is not None:
        return ctx._c17_probes

    def probe_summary(g):
        rc = [x for x in g.nodes.values() if x.get("k") == "mcall" and last(x.get("callee", "")) == "receiveSync" and "Transport" in x.get("callee", "")]
        if len(rc) != 1:
            return None
        tcs = [const_value(y) for y in walk(unwrap(rc[0]["args"][-1])) if y.get("k") == "int"]
        if tcs != [0]:
            return None
        rets = common.returns(g)
        txt = " ".join(show(e.node) for e in rets)
        # 'pending' form: true unless Timeout ; 'quiet' form: true only for Timeout
        if "isOk()" in txt and "!=" in txt and "Timeout" in txt:
            return "pending"
        if "isErr()" in txt and "==" in txt and "Timeout" in txt:
            return "quiet"
        return "unknown"
    fb = ctx.fb()
    probes = {g.name: probe_summary(g) for g in fb.methods_of(HC) if g.ok and probe_summary(g)}
    # derived probes: a one-argument boolean method of the client whose answer is decided by a probe of that same argument
    # (`return setReadMode(id, Sync) && !inputPending(id);`): summarised over the single atom 'the probe found input pending' —
    # true ⇒ ¬pending makes it a 'quiet' probe, a result equal to pending a 'pending' probe.  Two rounds: probes built on derived probes.
    for _round in range(2):
        for g in fb.methods_of(HC):
            if not g.ok or g.name in probes or len(g.params) != 1 or not g.file.endswith(HCF) or not any(x.get("k") == "mcall" and x.get("callee") in probes for x in g.nodes.values()):
                continue
            pd = g.params[0]["d"]

            def leaf(n, pd=pd):
                if n.get("k") == "mcall" and n.get("callee") in probes and len(n["args"]) == 1 and is_var(n["args"][0], pd):
                    kind = probes[n["callee"]]
                    return A("pending") if kind == "pending" else Not(A("pending")) if kind == "quiet" else None
                return None
            ab = Abs(fb, ["pending"], leaf, None, call_atoms=("pending",))
            call = {"k": "mcall", "callee": g.name, "t": "bool", "args": [{"k": "var", "n": g.params[0].get("n", "p"), "d": pd, "parm": 0, "t": g.params[0]["t"]}]}
            if hc_callee(fb, call) is not g:
                continue
            sm = ab.summary(g, call)
            if sm is None:
                continue
            v = Vocab(["pending"])
            ft = sm[0][1] if sm[0][0] == "and?" else sm[0]
            if ft != T and v.entails(v.mask(ft), Not(A("pending"))) and v.mask(ft) != 0:
                probes[g.name] = "quiet"
            elif sm[0][0] != "and?" and v.mask(ft) == v.mask(A("pending")):
                probes[g.name] = "pending"
    ctx._c17_probes = probes
    return ctx._c17_probes


def surplus_flag(fr):
    """frameResponse: (blocks that test for bytes behind the message, index of the `bool &` parameter their true edges set).  The flag is
    found through what is assigned on those edges, not through its name."""
    dd = param_decl(fr, "data", MUT_STRING_REF)

    def surplus_test(b):
        def is_size(x):
            x = strip_casts(x)
            return x is not None and x.get("k") == "mcall" and last(x.get("callee", "")) in ("size", "length") and is_var(x.get("obj"), dd)
        co = common.cmp_oriented(b.cond, lambda x: not is_size(x)) if b.cond is not None else None
        return co is not None and co[0] == ">" and is_size(co[1])
    sur = [b for b in fr.blocks.values() if surplus_test(b)]
    cands = {}
    for b in sur:
        for x in fr.blocks[b.succs[0]].elems if b.succs[0] is not None else []:
            a = asg(x.node) if x.kind == "stmt" else None
            if a and const_value(strip_casts(a[1])) == 1:
                l = strip_casts(a[0])
                if l.get("k") == "var" and l.get("parm") is not None and fr.params[l["parm"]]["t"].replace(" ", "") == "bool&":
                    cands.setdefault(l["parm"], []).append(b.id)
    if len(cands) != 1:
        raise AnalysisBroken("frameResponse: cannot identify the surplus-bytes flag (%d `bool &` parameters are set on surplus edges, %d surplus tests)" % (len(cands), len(sur)))
    idx = list(cands)[0]
    return sur, idx, set(cands[idx])


def r5(ctx, r):
    fb = ctx.fb()
    e_ = fn(ctx, HC, "executeRequest", HCF)
    la = ctx.locks()
    send = [e for e in e_.stmts() if e.node.get("k") == "mcall" and last(e.node.get("callee", "")) == "sendSync"]
    if len(send) != 1:
        raise AnalysisBroken("executeRequest: %d sendSync calls" % len(send))
    is_drop0 = lambda x: x.kind == "stmt" and x.node.get("k") == "mcall" and x.node.get("callee") == HC + "::dropConnection"
    _md = {}

    def must_drop(g):
        """every path through the client's helper g evicts (calls dropConnection, or a helper that always does): 'does X when all its paths do X'"""
        if g.sig not in _md:
            _md[g.sig] = False
            _md[g.sig] = search(g, ("entry",), "exit", stop=lambda x: is_drop(x), eh=False) is None and any(is_drop(x) for x in g.stmts())
        return _md[g.sig]

    def is_drop(x):
        if is_drop0(x):
            return True
        g = hc_callee(fb, x.node) if x.kind == "stmt" else None
        return g is not None and last(g.name) != "dropConnection" and must_drop(g)
    drops = [e for e in e_.stmts() if is_drop(e)]
    # helpers that evict on SOME of their paths only: what they decide is not visible to the path rules below
    maybe_drop = [e for e in calls_reaching(fb, e_, is_drop0) if not is_drop(e) and search(e_, send[0], lambda y, e=e: y is e, eh=False) is not None]     # (after the send)
    # send failure → drop → throw.  The send's result is the local initialised from the call (or the call itself); its failing edge is
    # the true edge of `.isErr()` / the false edge of `.isOk()`
    sres_d = var_initialised_by(e_, send[0])

    def send_failed_edge(b):
        c, st, sf = common.branch(b)
        c = strip_casts(c) if c is not None else None
        if c is not None and c.get("k") == "mcall" and last(c.get("callee", "")) in ("isErr", "isOk") and ((sres_d is not None and is_var(c.get("obj"), sres_d)) or unwrap_copy(c.get("obj")) is send[0].node):
            return st if last(c["callee"]) == "isErr" else sf
        return None
    sb = [b for b in e_.blocks.values() if b.cond is not None and send_failed_edge(b) is not None]
    if not sb and sres_d is not None and any(x.get("k") in ("call", "mcall") and hc_callee(fb, x) is not None and any(is_var(a, sres_d) for a in x.get("args", [])) for x in e_.nodes.values()):
        raise AnalysisBroken("executeRequest: the result of sendSync is judged inside a helper of the client (the send-failure path is not where the rule reads it)")
    r.instance()
    ok = len(sb) == 1
    fail_els = []
    if ok:
        fail_els = _reach_until_ret(e_, send_failed_edge(sb[0]))
        ok = any(x in drops for x in fail_els) and any(x.kind == "stmt" and x.node.get("k") == "throw" for x in fail_els)
    r.expect(ok, e_, send[0], "send failure keeps the connection", "a failed send does not evict the connection before the error is reported", okdesc="send error → dropConnection → throw")
    # receive/framing region: a try with catch-all → drop → rethrow
    rcv = [e for e in e_.stmts() if e.node.get("k") == "mcall" and last(e.node.get("callee", "")) == "receiveSync"]
    if len(rcv) != 1:
        raise AnalysisBroken("executeRequest: %d receiveSync calls (the receive loop is not where the rule reads it)" % len(rcv))
    r.instance()
    ok = len(rcv) == 1 and rcv[0].try_id and "..." in e_.trys[rcv[0].try_id]["handlers"]
    hb = [b for b in e_.blocks.values() if b.label and b.label.get("k") == "catch" and rcv and b.label.get("try") == rcv[0].try_id and b.label.get("t") == "..."]
    if ok and hb:
        els = _reach_until_ret(e_, hb[0].id)
        ok = any(x in drops for x in els) and any(x.kind == "stmt" and x.node.get("k") == "throw" and x.node.get("v") is None for x in els)
    r.expect(ok and bool(hb), e_, rcv[0] if rcv else None, "receive failure keeps the connection", "a failure while receiving/framing the response does not evict the connection (catch-all → dropConnection → rethrow expected)", okdesc="catch (...) → dropConnection → throw;")
    # every clause of that try evicts: a more specific handler placed before the catch-all must not let its exception type skip the eviction
    if rcv and rcv[0].try_id:
        for b in e_.blocks.values():
            if b.label and b.label.get("k") == "catch" and b.label.get("try") == rcv[0].try_id and b.label.get("t") != "...":
                els = _reach_until_ret(e_, b.id)
                r.instance()
                r.expect(any(x in drops for x in els), e_, els[0] if els else None, "failure type skips the eviction: %s" % b.label.get("t"), "the receive/framing block has a `catch (%s)` clause that leaves without dropConnection: a connection that "
                         "failed with that error stays cached (in Sync mode, with the peer's bytes still queued) and serves the next request to the same host — which reads the stale bytes as its own response" % b.label.get("t"),
                         okdesc="catch (%s) evicts" % b.label.get("t"))
    # everything after the send that can throw is inside that try (or is the send-failure path)
    if ok:
        tid = rcv[0].try_id
        after = []
        for x in e_.stmts():
            if "root" not in x.raw or x.try_id == tid or e_.trys.get(x.try_id, {}).get("parent") == tid or x.catch_id:
                continue
            if search(e_, send[0], lambda y, x=x: y is x, eh=False) is None:
                continue
            if x in fail_els:
                continue
            if x.node.get("k") in ("mcall", "call") and (last(x.node.get("callee", "")) in ("frameResponse", "receiveSync", "setReadMode", "responseRequestsClose", "substr") or
                                                         (hc_callee(fb, x.node) is not None and not is_drop0(x))):
                after.append(x)
        r.instance()
        r.expect(not after, e_, after[0] if after else None, "post-send work outside the eviction guard", "`%s` runs after the send but outside the try whose catch-all evicts the connection" % (show(after[0].node)[:40] if after else ""),
                 okdesc="receive, framing and reuse decision inside the guarded region")
    # ---- normal path: the connection stays cached only if every reuse condition was established — decided on paths, not on the
    # spelling of one expression: at every normal return after the send, `dropConnection was called` ∨ (all conditions).  The conditions
    # may be one conjunction, nested ifs, or a helper with guard clauses (Abs follows the client's own boolean helpers).
    fr = fn(ctx, HC, "frameResponse", HCF)
    sur, flag_idx, flagged = surplus_flag(fr)
    fcs = [e for e in e_.stmts() if e.node.get("k") == "mcall" and e.node.get("callee") == HC + "::frameResponse"]
    if len(fcs) != 1:
        raise AnalysisBroken("executeRequest: %d calls of frameResponse (the surplus flag, the framing and the response object are the variables passed to it)" % len(fcs))

    def arg_decl(call, g, pick, what):
        idx = [i for i, p_ in enumerate(g.params) if pick(i, p_)]
        a = strip_casts(strip_wrappers(call["args"][idx[0]])) if len(idx) == 1 and idx[0] < len(call["args"]) else None
        if a is None or a.get("k") != "var":
            raise AnalysisBroken("executeRequest: cannot identify the %s passed to frameResponse" % what)
        return a["d"], a["n"]
    evict_d, evict_n = arg_decl(fcs[0].node, fr, lambda i, p_: i == flag_idx, "surplus flag")
    framing_d, _ = arg_decl(fcs[0].node, fr, lambda i, p_: p_["t"].replace(" ", "").endswith("Framing&"), "framing state")
    resp_d, _ = arg_decl(fcs[0].node, fr, lambda i, p_: p_["t"].replace(" ", "").endswith("Response&"), "response object")
    sid = strip_casts(strip_wrappers(send[0].node["args"][0]))
    if sid is None or sid.get("k") != "var":
        raise AnalysisBroken("executeRequest: the session passed to sendSync is not a variable")
    sid_d = sid["d"]
    probes = probe_table(ctx)
    tracked = {evict_d: "evict", framing_d: "cd", resp_d: "close"}

    def leaf(n):
        k = n.get("k")
        if k == "member" and n["n"].endswith("::Config::reuseConnections") and field_of(n.get("b")) == HC + "::_config":
            return A("reuse")
        if k == "mcall" and n.get("callee") == HC + "::responseRequestsClose" and len(n["args"]) == 1 and is_var(n["args"][0], resp_d):
            return A("close")
        if k == "var" and n.get("d") == evict_d:
            return A("evict")
        co = common.cmp_oriented(n, lambda x: strip_casts(x).get("k") == "enum" and strip_casts(x)["n"].endswith("BodyMode::CloseDelimited"))
        if co and co[0] in ("==", "!="):
            m = strip_casts(co[1])
            if m.get("k") == "member" and m["n"].endswith("::Framing::mode") and is_var(m.get("b"), framing_d):
                return A("cd") if co[0] == "==" else Not(A("cd"))
        if k == "mcall" and n.get("callee") in probes and len(n["args"]) == 1 and is_var(n["args"][0], sid_d):
            kind = probes[n["callee"]]
            return A("pending") if kind == "pending" else Not(A("pending")) if kind == "quiet" else None
        if k == "mcall" and n.get("callee", "").endswith("Transport::setReadMode") and len(n["args"]) == 2 and is_var(n["args"][0], sid_d):
            m = strip_casts(n["args"][1])
            if m.get("k") == "enum" and m["n"].endswith("ReadMode::Async"):
                return A("warm")
        return None

    def root_var(x):
        x = strip_casts(strip_wrappers(x)) if x is not None else None
        while x is not None and x.get("k") in ("member", "idx"):
            x = strip_casts(x.get("b"))
        return x if x is not None and x.get("k") == "var" else None

    def effects(n, e):
        if n is None:
            return None
        ops = []
        k = n.get("k")
        if k == "mcall" and n.get("callee") == HC + "::dropConnection" and len(n["args"]) == 2 and is_var(n["args"][1], sid_d):
            ops.append(("set", "dropped", True))
        elif k in ("call", "mcall") and e in drops and any(is_var(a_, sid_d) for a_ in n.get("args", [])):
            ops.append(("set", "dropped", True))       # a helper of the client that evicts this session on every one of its paths
        if k == "mcall" and n.get("callee", "").endswith("Transport::setReadMode") and len(n["args"]) == 2 and is_var(n["args"][0], sid_d):
            m_ = strip_casts(n["args"][1])
            if not (m_.get("k") == "enum" and m_["n"].endswith("ReadMode::Sync")):
                ops.append(("set", "leftsync", True))  # the session is (asked to be) taken out of Sync read mode
        if k == "decl":
            for v in n["vars"]:
                if v.get("d") == evict_d:
                    cv = const_value(strip_casts(v["init"])) if v.get("init") is not None else None
                    ops.append(("set", "evict", bool(cv)) if cv is not None else ("havoc", "evict"))
        a = asg(n) if k in ("bin", "opcall") else None
        if a is None and k in ("bin", "opcall") and is_assign(n):
            a = (_ap(n)[0], None)                      # compound assignment
        if a:
            rv = root_var(a[0])
            if rv is not None and rv.get("d") in tracked:
                cv = const_value(strip_casts(a[1])) if a[1] is not None and strip_casts(a[0]).get("k") == "var" else None
                ops.append(("set", "evict", bool(cv)) if rv["d"] == evict_d and cv is not None else ("havoc", tracked[rv["d"]]))
        if k in ("call", "mcall") and leaf(n) is None:
            # a tracked variable handed to a call that may change it (an unknown callee, or a non-const reference parameter of one of the
            # client's own functions): what was known about it is forgotten
            g = hc_callee(fb, n)
            for i, a_ in enumerate(n.get("args", [])):
                rv = root_var(a_)
                if rv is not None and rv.get("d") in tracked and root_var(a_) is strip_casts(strip_wrappers(a_)):
                    t = g.params[i]["t"].strip() if g is not None and i < len(g.params) else "&"
                    if t.endswith("&") and not t.startswith("const "):
                        ops.append(("havoc", tracked[rv["d"]]))
        return ops
    ab = Abs(fb, ["reuse", "close", "evict", "cd", "pending", "warm", "dropped", "leftsync"], leaf, effects, call_atoms=("close", "pending", "warm"))
    pa = ab.run(e_, track_bools=True, init=And(Not(A("dropped")), Not(A("leftsync"))))
    rets = [x for x in common.returns(e_) if search(e_, send[0], lambda y, x=x: y is x, eh=False) is not None]
    if not rets:
        raise AnalysisBroken("executeRequest: no normal return after the send")
    via = (" (through %s)" % ", ".join(sorted({last(h.name) for h in ab.helpers}))) if ab.helpers else ""
    need = [("reuse switch", A("reuse"), "the client's reuseConnections switch"), ("no close signal", Not(A("close")), "¬responseRequestsClose(response)"),
            ("no surplus bytes", Not(A("evict")), "¬%s (set by frameResponse when bytes follow the message)" % evict_n), ("not close-delimited", Not(A("cd")), "framing mode ≠ CloseDelimited"),
            ("nothing pending in the transport (bytes behind a message that ended exactly at a read boundary never reach the surplus test)", Not(A("pending")), "a zero-timeout probe of the transport that found nothing"),
            # HttpClient registers no data callback: in Async mode the transport discards whatever the peer sends on the idle connection
            # (an unsolicited 408 before it drops it), and the reuse probe only sees what arrives after it switched back to Sync
            ("left in Sync read mode while cached (in Async mode, with no data callback, bytes the peer sends on the idle connection are discarded before the reuse probe can see them)",
             Not(A("leftsync")), "no setReadMode(session, <other than Sync>) since the exchange")]
    if maybe_drop and any(not pa.entails(x, Or(A("dropped"), fm)) for x in rets for (_k, fm, _w) in need):
        raise AnalysisBroken("executeRequest: %s evicts the connection on some of its paths only — the keep-or-evict decision is taken inside it, in a form the rule does not follow" % last(maybe_drop[0].node["callee"]))
    for k, fm, what in need:
        r.instance()
        bad = [x for x in rets if not pa.entails(x, Or(A("dropped"), fm))]
        r.expect(not bad, e_, bad[0] if bad else None, "reuse without: %s" % k, "executeRequest can return normally with the connection still cached (no dropConnection on the path) although '%s' was not established "
                 "(certain at that point: %s): a connection that saw a close signal / surplus bytes / a close-delimited body / unread input serves a later request, which reads stale bytes as its own response or is sent into a closing socket"
                 % (what, (", ".join(pa.describe(bad[0])) or "nothing") if bad else ""), okdesc="kept ⇒ %s%s" % (k.split(" (")[0], via))
    # the not-evicting path exists at all (otherwise the rule above holds vacuously and 'reuse' is dead code: say so rather than pass silently)
    r.instance()
    if not any(not pa.entails(x, A("dropped")) for x in rets) and fb.funcs(HC + "::dropConnection", HCF):
        r.note("every normal return evicts the connection: connection reuse is switched off in effect")
    r.ok("normal returns after the send: %d" % len(rets))
    # frameResponse: every surplus-bytes comparison sets the flag
    r.instance()
    r.expect(len(sur) >= 3 and all(b.id in flagged for b in sur), fr, None, "surplus bytes not flagged", "frameResponse has %d surplus-bytes tests but not each sets `%s`" % (len(sur), fr.params[flag_idx]["n"]),
             okdesc="%d surplus-bytes edges set %s" % (len(sur), fr.params[flag_idx]["n"]))
    rets = [e for e in common.returns(fr) if const_value(strip_casts(e.node.get("v") or {})) == 1]
    r.instance()
    r.expect(len(rets) >= 3 and all(any(search(fr, ("block", b.id), lambda x, e=e: x is e, eh=False) is not None for b in sur) for e in rets), fr, None, "complete without surplus test", "a `return true` of frameResponse is not preceded by a surplus-bytes test",
             okdesc="every completion passes a surplus-bytes test")
    # dropConnection closes and erases only the matching entry
    dc = fn(ctx, HC, "dropConnection", HCF)
    cl = [e for e in dc.stmts() if e.node.get("k") == "mcall" and last(e.node.get("callee", "")) == "close" and "Transport" in e.node.get("callee", "")]
    er = [e for e in dc.stmts() if e.node.get("k") == "mcall" and last(e.node.get("callee", "")) == "erase" and field_of(strip_casts(e.node.get("obj"))) == HC + "::_connections"]
    r.instance()
    r.expect(len(cl) == 1 and len(er) == 1 and search(dc, ("entry",), "exit", stop=lambda x: x is cl[0], eh=False) is None, dc, None, "dropConnection", "dropConnection does not close the session on every path / erase the cache entry", okdesc="dropConnection: erase (if matching) + close")


def r6(ctx, r):
    fb, la = ctx.fb(), ctx.locks()
    for fld in ("_connections", "_leasedHosts"):
        common.guarded_by(r, fb, la, HC + "::" + fld, M, files=[HCF])
    r.floor(8, "guarded access sites")
    e_ = fn(ctx, HC, "executeRequest", HCF)
    # the lease object: the local initialised from acquireLease(…) (whatever it is called); the connection is acquired by the call to
    # acquireConnection — directly or inside a helper of the client (`openSyncSession`), which is then the point that must come after
    lcall = [e for e in e_.stmts() if e.node.get("k") == "mcall" and e.node.get("callee") == HC + "::acquireLease"]
    if len(lcall) != 1:
        raise AnalysisBroken("executeRequest: %d calls of acquireLease (the lease object is the local initialised from it)" % len(lcall))
    lease_d = var_initialised_by(e_, lcall[0])
    lease = [e for e in e_.stmts() if e.node.get("k") == "decl" and any(v.get("d") == lease_d for v in e.node["vars"])] if lease_d is not None else []
    acq = calls_reaching(fb, e_, lambda e: e.node.get("k") == "mcall" and e.node.get("callee") == HC + "::acquireConnection")
    if not acq:
        raise AnalysisBroken("executeRequest: no call that reaches acquireConnection")
    r.instance()
    r.expect(len(lease) == 1 and all(elem_dominates(e_, lease[0], a, eh=False) for a in acq), e_, acq[0], "lease order", "the connection is acquired (`%s`) before the per-host lease is held" % show(acq[0].node)[:40],
             okdesc="lease held before %s" % ", ".join(sorted({last(a.node["callee"]) for a in acq})))
    # the lease object lives to the end: its destructor is an implicit dtor element at function scope exits only
    dt = [e for e in e_.elems() if e.kind == "dtor" and lease_d is not None and e.raw.get("d") == lease_d]
    r.instance()
    r.expect(len(dt) >= 1 and all(search(e_, d_, lambda x: x in acq or is_transport_call(x), eh=False) is None for d_ in dt), e_, None, "lease scope", "the lease is not a scoped object of executeRequest that lives until the exchange is over", okdesc="lease released by RAII at scope exit (%d exits)" % len(dt))
    al = fn(ctx, HC, "acquireLease", HCF)
    on_leased = lambda e, names: e.node.get("k") == "mcall" and last(e.node.get("callee", "")) in names and field_of(strip_casts(e.node.get("obj"))) == HC + "::_leasedHosts"
    ins = calls_reaching(fb, al, lambda e: on_leased(e, ("insert", "emplace", "try_emplace")))
    waits = [e for e in al.stmts() if e.node.get("k") == "mcall" and last(e.node.get("callee", "")) in ("wait", "wait_for", "wait_until")]
    if not ins or not waits:
        raise AnalysisBroken("acquireLease: %d insertions into _leasedHosts, %d condition-variable waits — the shape the lease rule reads is gone" % (len(ins), len(waits)))
    r.instance()
    ok = len(ins) == 1 and len(waits) >= 1 and la.holds(al, ins[0], M) and all(search(al, w, lambda x: x is ins[0], stop=lambda x: not la.holds(al, x, M), eh=False) is not None for w in waits)
    r.expect(ok, al, ins[0] if ins else None, "lease insert", "the lease is not inserted in the critical section whose predicate saw it absent", okdesc="insert in the same critical section as the wait predicate")
    rl = fn(ctx, HC, "releaseLease", HCF)
    er = calls_reaching(fb, rl, lambda e: on_leased(e, ("erase",)))
    nt = [e for e in rl.stmts() if e.node.get("k") == "mcall" and last(e.node.get("callee", "")) in ("notify_all", "notify_one")]
    if not er:
        raise AnalysisBroken("releaseLease: no erase from _leasedHosts reachable")
    r.instance()
    r.expect(len(er) == 1 and len(nt) == 1 and la.holds(rl, er[0], M) and last(nt[0].node["callee"]) == "notify_all" and elem_dominates(rl, er[0], nt[0], eh=False), rl, None, "lease release",
             "releaseLease does not erase under the lock and then notify_all (one cv serves all hosts)", okdesc="erase under _mutex, then notify_all")


def r7(ctx, r):
    fb, la = ctx.fb(), ctx.locks()
    n = 0
    for f in fb.in_file(HCF):
        if not f.ok:
            continue
        for e in f.stmts():
            nn = e.node
            if nn.get("k") == "mcall" and last(nn.get("callee", "")) in ("receiveSync", "sendSync", "connectSync") and "Transport" in nn.get("callee", ""):
                n += 1
                targ = unwrap(nn["args"][-1])
                r.instance()
                src = show(targ)
                ok = False
                if targ.get("k") == "var":
                    defs = [v.get("init") for d in f.stmts() if d.node.get("k") == "decl" for v in d.node["vars"] if v.get("d") == targ.get("d") and v.get("init") is not None]
                    ok = bool(defs) and all("_config." in show(x) and "imeout" in show(x) for x in defs)
                elif "_config." in src and "imeout" in src:
                    ok = True
                # a compile-time constant is a bound as well; zero is a poll (returns at once: nothing to wait for)
                tc = [const_value(x) for x in walk(targ) if x.get("k") == "int"]
                poll = targ.get("k") in ("ctor", "cast", "int") and tc == [0] and not any(x.get("k") == "var" for x in walk(targ))
                if poll or (targ.get("k") in ("ctor", "cast", "int") and len(tc) == 1 and tc[0] is not None and 0 <= tc[0] <= 60000 and not any(x.get("k") == "var" for x in walk(targ))):
                    ok = True
                r.expect(ok, f, e, "unbounded wait: %s" % last(nn["callee"]), "%s calls %s with the timeout `%s`, which is not taken from the client's configured timeouts" % (last(f.name), last(nn["callee"]), src),
                         okdesc="%s: %s(…, configured timeout)" % (last(f.name), last(nn["callee"])))
                r.instance()
                r.expect(poll or not la.holds(f, e, M), f, e, "blocking call under _mutex: %s" % last(nn["callee"]), "%s holds HttpClient::_mutex across the blocking %s: lease releases and other hosts' requests stall for the whole timeout"
                         % (last(f.name), last(nn["callee"])), okdesc="%s without _mutex" % last(nn["callee"]))
    if n < 3:
        raise AnalysisBroken("only %d blocking transport calls found in http_client.hpp (floor 3)" % n)
    e_ = fn(ctx, HC, "executeRequest", HCF)
    rcv = [e for e in e_.stmts() if e.node.get("k") == "mcall" and last(e.node.get("callee", "")) == "receiveSync"]
    # the Timeout arm(s) of the receive loop: the edge of a comparison of an error code with TransportError::Timeout on which they are
    # equal, or the `case TransportError::Timeout:` label of a switch over it — whichever way the dispatch is written
    is_timeout = lambda x: strip_casts(x) is not None and strip_casts(x).get("k") == "enum" and strip_casts(x)["n"].endswith("TransportError::Timeout")
    arms = []
    for b in e_.blocks.values():
        if b.cond is not None and len(b.succs) == 2:
            c, st, sf = common.branch(b)
            co = common.cmp_oriented(c, is_timeout) if c is not None else None
            if co and co[0] in ("==", "!=") and not is_timeout(co[1]):
                arms.append(st if co[0] == "==" else sf)
        if b.label and b.label.get("k") == "case" and b.label.get("v") is not None and is_timeout(b.label["v"]):
            arms.append(b.id)
    arms = [a for a in arms if a is not None]
    if len(rcv) != 1:
        raise AnalysisBroken("executeRequest: %d receiveSync calls (the receive loop is not where the rule reads it)" % len(rcv))
    r.instance()
    ok = True       # (no dedicated Timeout arm: a timeout is one of the error results, which the next clause follows)
    if arms:
        ok = all(search(e_, ("block", a), lambda x: x is rcv[0], eh=False) is None and any(x.kind == "stmt" and x.node.get("k") == "throw" for x in _reach_until_ret(e_, a)) for a in arms)
    bad_arm = [a for a in arms if search(e_, ("block", a), lambda x: x is rcv[0], eh=False) is not None]
    r.expect(ok, e_, (e_.blocks[bad_arm[0]].elems or [None])[0] if bad_arm else None, "timeout not an error", "the Timeout arm of the receive loop can receive again instead of throwing: a silent peer is waited for longer than the configured timeout", okdesc="Timeout → throw (%d arm%s)" % (len(arms), "" if len(arms) == 1 else "s"))
    # every error arm leaves the loop: the loop body ends with an error result only when the exchange is complete
    r.instance()
    okl = False
    if len(rcv) == 1:
        # the receive result and the completion flag are found through what they hold (the value of receiveSync / of frameResponse)
        rr_d = var_initialised_by(e_, rcv[0])
        fcs = [e for e in e_.stmts() if e.node.get("k") == "mcall" and e.node.get("callee") == HC + "::frameResponse"]
        # (a loop without a completion flag — `for (;;) { … if (frameResponse(…)) break; }` — leaves by break: then no element of the
        # loop body that leads back to the receive may be reached with an error result at all; `comp` stays false)
        comp_d = var_initialised_by(e_, fcs[0]) if len(fcs) == 1 else None
        if rr_d is None:
            raise AnalysisBroken("executeRequest: cannot identify the variable holding the result of receiveSync")
        vocab = Vocab(["ok", "comp"])

        def leaf(n):
            if n.get("k") == "mcall" and last(n.get("callee", "")) in ("isOk", "isErr") and is_var(n.get("obj"), rr_d):
                return A("ok") if last(n["callee"]) == "isOk" else Not(A("ok"))
            if comp_d is not None and n.get("k") == "var" and n.get("d") == comp_d:
                return A("comp")
            return None

        def effects(e):
            if e is rcv[0]:
                return [("havoc", "ok")]
            if e.kind != "stmt":
                return None
            a = asg(e.node) if comp_d is not None else None
            if a and is_var(a[0], comp_d):
                cv = const_value(strip_casts(a[1]))
                return [("set", "comp", bool(cv))] if cv is not None else [("havoc", "comp")]
            if e.node.get("k") == "decl":
                for v in e.node["vars"]:
                    if comp_d is not None and v.get("d") == comp_d:
                        return [("set", "comp", bool(const_value(strip_casts(v.get("init") or {}))))]
            return None
        pa = PredAbs(e_, vocab, leaf, effects, eh=False, init=T if comp_d is not None else Not(A("comp")))
        ends = [x for x in e_.elems() if x.kind == "dtor" and x.raw.get("d") == rr_d and search(e_, x, lambda y: y is rcv[0], eh=False) is not None]
        okl = bool(ends) and all(pa.entails(x, Or(A("ok"), A("comp"))) for x in ends)
    r.expect(okl, e_, None, "error arm loops", "an error result of receiveSync can lead back to another receive without the exchange being complete: a failing peer is polled again instead of the attempt failing", okdesc="every error arm throws or completes")


def r8(ctx, r):
    """the close signal is recognised: token-wise, case-folded `close`; HTTP/1.0 default; in ANY Connection field line"""
    # the value responseRequestsClose looks at holds every Connection field line: a repeated line is appended, not assigned
    ph = fn(ctx, HC, "parseHeaderBlock", HCF)
    plain = [e for e in ph.stmts() if asg(e.node) and strip_casts(asg(e.node)[0]).get("k") == "opcall" and strip_casts(asg(e.node)[0]).get("op") == "[]" and "headers" in show(asg(e.node)[0])]
    apps = [e for e in ph.stmts() if e.node.get("k") == "mcall" and last(e.node.get("callee", "")) in ("append", "operator+=") and "second" in show(e.node.get("obj") or {})] + \
           [e for e in ph.stmts() if e.node.get("k") == "opcall" and e.node.get("op") == "+=" and "second" in show(e.node["args"][0])]
    r.instance()
    if not plain:
        raise AnalysisBroken("parseHeaderBlock: header store not found")
    okc = False
    for a_ in apps:
        fx = dominating_facts(ph, a_)
        is_conn = any(t and any(x.get("k") == "str" and x.get("v", "").lower() == "connection" for x in walk(c)) for (c, t) in fx)
        found = any(("end()" in show(c)) and ((common.cmp_parts(strip_casts(c)) or ("",))[0] == "!=") == t for (c, t) in fx)
        if is_conn and found:
            okc = True
    # … and the plain (last-wins) store is not reachable for a repeated Connection line
    r.expect(okc, ph, plain[0], "repeated Connection line overwrites the earlier one", "parseHeaderBlock stores every field with `headers[name] = value` (last wins): `Connection: close` followed by `Connection: keep-alive` "
             "is treated as persistent — the close signal is lost and the next request goes out on a connection the server announced it would close (RFC 9110 §5.3: repeated lines are one list)",
             okdesc="repeated Connection lines are combined into one list")
    # a cached connection is handed to a request only after the transport was asked whether the peer has closed it / sent
    # anything since the last exchange (a close that arrives after a complete keep-alive response is seen by nobody else)
    # (wherever the cache look-up lives: acquireConnection itself or a helper it was moved into — every function of the client that
    # returns the session id stored in a cache entry is an instance)
    probes = probe_table(ctx)
    crets = []
    for g in ctx.fb().methods_of(HC):
        if g.ok and g.file.endswith(HCF):
            crets += [(g, e) for e in common.returns(g) if any(x.get("k") == "member" and x["n"].endswith("::ConnectionEntry::id") for x in walk(e.node))]
    if not crets:
        raise AnalysisBroken("no function of HttpClient returns the session id of a cache entry (cached return not found)")
    for (aq, e) in crets:
        r.instance()
        okp = False
        for (c, t) in dominating_facts(aq, e):
            c0 = strip_casts(c)
            if c0.get("k") == "mcall" and c0.get("callee") in probes:
                kind = probes[c0["callee"]]
                if (kind == "quiet" and t) or (kind == "pending" and not t):
                    okp = True
        r.expect(okp, aq, e, "cached connection handed out unchecked", "%s returns a cached session without having asked the transport (zero-timeout receive) whether the peer closed it or sent anything since "
                 "the last exchange: a server that closes right after a complete keep-alive response leaves a dead session in the cache — the next request is 'sent' on it, fails as possibly-sent and (for a POST) is "
                 "not retried although not a byte reached the server" % last(aq.name), okdesc="%s: cached session probed before reuse" % last(aq.name))
    f = fn(ctx, HC, "responseRequestsClose", HCF)

    def token_test(b, lit):
        """declaration id of the local compared for equality with the string literal, on a two-way branch"""
        cp = common.cmp_parts(b.cond) if b.cond is not None else None
        if cp and cp[0] == "==" and [x.get("v") for x in walk(cp[2]) if x.get("k") == "str"] == [lit]:
            v = strip_views(cp[1])
            if v is not None and v.get("k") == "var" and v.get("parm") is None:
                return v["d"]
        return None
    cb = [b for b in f.blocks.values() if token_test(b, "close") is not None]
    if len(cb) != 1:
        # (no comparison of a token with "close" at all is a finding, not a refusal: the close signal is not recognised — unless the
        # function hands the work to a helper of the client, which this clause does not read)
        if not cb and any(hc_callee(ctx.fb(), e.node) is not None for e in f.stmts()):
            raise AnalysisBroken("responseRequestsClose: the token comparison is not in the function itself (it calls helpers of the client)")
        r.instance()
        r.expect(False, f, None, "close token", "responseRequestsClose has %d comparisons of a Connection token with \"close\" (expected one): a connection the server is about to close stays cached and the next request fails on it" % len(cb))
        return
    tok_d = token_test(cb[0], "close")
    r.instance()
    ok = any(e.kind == "stmt" and e.node.get("k") == "ret" and const_value(strip_casts(e.node.get("v") or {})) == 1 for e in f.blocks[cb[0].succs[0]].elems)
    r.expect(ok, f, None, "close token", "responseRequestsClose does not return true for a `close` token of the Connection header: a connection the server is about to close stays cached and the next request fails on it",
             okdesc="token == \"close\" → true")
    fold = [e for e in f.stmts() if e.node.get("k") == "call" and last(e.node.get("callee", "")) == "transform" and any(x.get("k") == "var" and x.get("d") == tok_d for x in walk(e.node))]
    lam_ok = any("asciiLower" in show(x.node) or "tolower" in show(x.node) for (ln, lf) in f.lambdas for x in lf.stmts())
    r.instance()
    r.expect(bool(fold) and lam_ok and all(search(f, e, lambda x: x.block is cb[0], eh=False) is not None for e in fold), f, None, "close token case", "the Connection tokens are not case-folded before the comparison (`Connection: Close` is missed)",
             okdesc="tokens lower-cased before comparison")
    sp = [e for e in f.stmts() if e.node.get("k") == "mcall" and last(e.node.get("callee", "")) == "find" and [const_value(x) for x in walk(e.node["args"][0]) if x.get("k") == "char"] == [ord(",")]]
    hd = [e for e in f.stmts() if e.node.get("k") == "mcall" and last(e.node.get("callee", "")) == "find" and [x.get("v") for x in walk(e.node["args"][0]) if x.get("k") == "str"] == ["Connection"]]
    r.instance()
    r.expect(len(sp) == 1 and len(hd) == 1, f, None, "token list", "the Connection header is not looked up and split on commas", okdesc="Connection header split on ','")
    # what the function answers when no token decided: every return is one of (a) `true` behind the close token, (b) `false` behind a
    # keep-alive token (directly, or through the flag that branch sets), (c) the version test — read through named constants
    # (`const bool closesByDefault = resp.httpVersion == "1.0"; … return closesByDefault;`)
    consts = {}
    assigned = {strip_casts(asg(e.node)[0]).get("d") for e in f.stmts() if asg(e.node) and strip_casts(asg(e.node)[0]).get("k") == "var"}
    for e in f.stmts():
        if e.node.get("k") == "decl":
            for v in e.node["vars"]:
                if (v.get("t") or "").startswith("const ") and not (v.get("t") or "").rstrip().endswith("&") and v.get("init") is not None and v["d"] not in assigned:
                    consts[v["d"]] = v["init"]

    def resolved(n, depth=0):
        if not isinstance(n, dict) or depth > 4:
            return n
        tab = {x["d"]: consts[x["d"]] for x in walk(n) if x.get("k") == "var" and x.get("d") in consts}
        if not tab:
            return n
        return resolved(_subst_locals(n, tab), depth + 1)
    ka = [b for b in f.blocks.values() if token_test(b, "keep-alive") == tok_d]
    saw = set()
    for b in ka:
        for e in f.blocks[b.succs[0]].elems if b.succs[0] is not None else []:
            a = asg(e.node) if e.kind == "stmt" else None
            if a and const_value(strip_casts(a[1])) == 1 and strip_casts(a[0]).get("k") == "var":
                saw.add(strip_casts(a[0])["d"])
    vrets, kf_direct, kf_flag, unjust, odd = [], [], [], [], []
    for e in common.returns(f):
        v = resolved(e.node.get("v") or {})
        cv = const_value(strip_casts(v)) if strip_casts(v) is not None and strip_casts(v).get("k") == "bool" else None
        if any(x.get("k") == "member" and x["n"].endswith("::Response::httpVersion") for x in walk(v)):
            vrets.append((e, v))
        elif cv == 1 and e.block.id == cb[0].succs[0]:
            pass
        elif cv == 0:
            direct = any(dominated_by_edge(f, e, b, 0, eh=False) for b in ka)
            flagb = [b for b in f.blocks.values() if b.cond is not None and len(b.succs) == 2 and strip_casts(common.branch(b)[0]).get("k") == "var" and strip_casts(common.branch(b)[0]).get("d") in saw and
                     common.branch(b)[1] is not None and dominated_by_edge(f, e, b, b.succs.index(common.branch(b)[1]), eh=False)]
            if direct:
                kf_direct.append(e)
            elif flagb:
                kf_flag.append((e, flagb))
            else:
                unjust.append(e)
        else:
            odd.append(e)
    if odd:
        raise AnalysisBroken("responseRequestsClose: cannot classify `%s` (neither a token verdict nor the HTTP-version default)" % show(odd[0].node)[:60])
    r.instance()
    r.expect(len(vrets) >= 1 and not unjust and all('"1.0"' in show(v) and any((common.cmp_parts(x) or ("",))[0] == "==" for x in walk(v)) for (_e, v) in vrets), f, (unjust or [None])[0], "HTTP/1.0 default",
             "without a Connection directive an HTTP/1.0 response is not treated as closing%s" % ((": the `return false` at line %d is behind no keep-alive token" % unjust[0].line) if unjust else ""), okdesc="no directive: close iff HTTP/1.0 (%d return%s)" % (len(vrets), "" if len(vrets) == 1 else "s"))
    # keep-alive only wins when no close token was seen: `false` is never returned straight from the keep-alive test (later tokens are
    # still unread there), only through the flag it sets, tested where the token loop can no longer be re-entered
    r.instance()
    r.expect(not kf_direct and (kf_flag or not ka) and all(search(f, ("block", b.id), lambda x: x.block is cb[0], eh=False) is None for (_e, bs) in kf_flag for b in bs), f, (kf_direct or [None])[0], "keep-alive precedence",
             "a keep-alive token ends the scan before a later `close` token is seen", okdesc="keep-alive decided only after all tokens")


def _subst_locals(n, table):
    """like subst(), for locals (any variable whose declaration id is in the table)"""
    if not isinstance(n, dict):
        return n
    if n.get("k") == "var" and n.get("d") in table:
        return table[n["d"]]
    out = None
    for k, v in n.items():
        if isinstance(v, dict):
            nv = _subst_locals(v, table)
            if nv is not v:
                out = out or dict(n)
                out[k] = nv
        elif isinstance(v, list):
            nl = [_subst_locals(x, table) for x in v]
            if any(a is not b for a, b in zip(nl, v)):
                out = out or dict(n)
                out[k] = nl
    return out or n



def anchors(ctx, r):
    # only PARAMETER names of anchored functions are left here (a parameter is part of the function's declaration); every local the
    # rules need — the attempt counter, the results of sendSync/receiveSync/frameResponse, the lease, the surplus flag, the framing
    # state, the Connection token — is found through the value it holds (retry_counter, var_initialised_by, surplus_flag, r5.arg_decl, r8.token_test)
    tab = [(fn(ctx, HC, "performRequest", HCF), ["method"])]          # (`retries`, frameResponse's `data`, isIdempotentMethod's parameter: found by type / position, see param_decl)
    for f, names in tab:
        have = {p_.get("n") for p_ in f.params}
        missing = [x for x in names if x not in have]
        if missing:
            raise AnalysisBroken("%s: the rule identifies its constructs through the parameter names %s, which no longer exist — re-anchor the rule (a rename is not a violation)" % (short(f.name), missing))
        r.instance()
        r.ok("%s: %s" % (last(f.name), ", ".join(names)))


def run(ctx, ck):
    r0 = ck.run_rule("C17-R0", "the parameter names the rules are anchored on exist (a rename makes the analysis refuse — exit 2 — instead of raising a false alarm); locals are found by dataflow, not by name", "anchor table", lambda r: anchors(ctx, r))
    if r0.broken:
        return
    ck.run_rule("C17-R1", "the retry decision is a pure function of (method, exception just caught); framing errors never retried", "A5 predicate abstraction + reaching-definition locality", lambda r: r1(ctx, r))
    ck.run_rule("C17-R2", "idempotent method set ⊆ RFC 9110 §9.2.2, exact comparison", "A10 table", lambda r: r2(ctx, r))
    ck.run_rule("C17-R3", "'not sent' is claimed only where no send can have executed", "A2 reachability + A3 call graph", lambda r: r3(ctx, r))
    ck.run_rule("C17-R4", "at most retries+1 attempts", "A2 dominance", lambda r: r4(ctx, r))
    ck.run_rule("C17-R5", "a connection that saw a failure, a close signal or surplus bytes is evicted", "A2 + A9", lambda r: r5(ctx, r))
    ck.run_rule("C17-R6", "cache and lease under the client mutex; lease held for the whole exchange", "A1 + A2", lambda r: r6(ctx, r))
    ck.run_rule("C17-R8", "the server's close signal is recognised (token-wise, case-folded; HTTP/1.0 default)", "A10 table + order", lambda r: r8(ctx, r))
    ck.run_rule("C17-R7", "every blocking call has a configured timeout, runs without the client mutex; timeout is an error", "A2 + A1", lambda r: r7(ctx, r))
