"""C10 — Bounded queues are FIFO, lossless, capacity-bounded and race-free (DESIGN.md §2 C10)."""
from .. import access
from ..cfg import search, witness_str, elem_dominates
from ..expr import show, walk, last, field_of, strip_wrappers, strip_casts, short, const_value
from ..facts import AnalysisBroken
from ..predabs import Vocab, PredAbs, A, Not, And, Or, T, translate, known_when, total
from ..rules import common

TITLE = "Bounded queues are FIFO, lossless, capacity-bounded and race-free"
TECHNIQUE = 'custom static analysis over clang-14 CFG facts: atomic memory-order tables per access site (release/acquire pairing), must-lockset, same-critical-section rule, condition-variable discipline'
BQ = "iora::core::BlockingQueue"
BQ_FILE = "iora/core/blocking_queue.hpp"
RB_FILE = "iora/core/ring_buffer.hpp"
RB_CLASSES = ("iora::core::RingBuffer", "iora::core::DynamicRingBuffer")

EXPLANATION = (
    "Static discharge of necessary structural obligations of C10 over the instantiated bodies of "
    "BlockingQueue<int>, RingBuffer<int,8> and DynamicRingBuffer<int>: R1 every access to the deque holds the "
    "queue mutex (must-lockset dataflow); R2 condition-variable discipline: every variable read by an untimed wait "
    "predicate is written only under the wait's mutex (or the mutex is taken between write and notify), and every "
    "push/pop/close is followed on all paths by the matching notify; R3 predicate abstraction over {notfull, closed, "
    "nonempty, <timed-wait result>} proves on every path that a push happens only when not full and not closed and a "
    "front()/pop_front() only when non-empty, insertion only at the back, removal only at the front, close() removes "
    "nothing; R4 memory orders of the SPSC index operations by producer/consumer role; R5 slot access is bounded by "
    "the full/empty test and precedes the index publication. Decides these clauses, not linearizability itself.")
NOT_DECIDED = ["linearizability / per-producer order as a history property (R3 gives the end discipline + lock order)",
               "fairness", "wrap-around of size_t indices after 2^64 operations",
               "resize()/clear() under concurrency (documented as requiring quiescence)"]
ASSUMPTIONS = ["_closed is treated as stable while _mutex is held; R2 discharges exactly that (writes of _closed hold _mutex)"]

ACQ = {"std::memory_order_acquire", "std::memory_order_seq_cst", "std::memory_order_acq_rel", "std::memory_order_consume"}
REL = {"std::memory_order_release", "std::memory_order_seq_cst", "std::memory_order_acq_rel"}


def _bq_methods(fb):
    ms = [f for f in fb.functions if f.ok and f.file.endswith(BQ_FILE) and (f.cls == BQ or (f.kind == "lambda" and f.name.startswith(BQ + "::")))]
    if len(ms) < 15:
        raise AnalysisBroken("BlockingQueue: only %d function bodies found (explicit instantiation missing?)" % len(ms))
    return ms


def _queue_call(n, names=None):
    """n is a member call on the deque field `_queue`; returns method name or None"""
    if n.get("k") not in ("mcall", "opcall"):
        return None
    o = n.get("obj") if n.get("k") == "mcall" else (n["args"][0] if n.get("memberop") and n["args"] else None)
    if o is None or field_of(o) != BQ + "::_queue":
        return None
    m = last(n.get("callee", ""))
    if names and m not in names:
        return None
    return m


# ------------------------------------------------------------------ R1/R2

def r1(ctx, r):
    fb = ctx.fb()
    la = ctx.locks()
    common.guarded_by(r, fb, la, BQ + "::_queue", BQ + "::_mutex")
    r.floor(20, "access sites of _queue")


def r2(ctx, r):
    fb = ctx.fb()
    la = ctx.locks()
    n = common.cv_discipline(r, fb, la, lambda f: f.file.endswith(BQ_FILE))
    if n < 6:
        raise AnalysisBroken("C10-R2: %d condition-variable waits found in blocking_queue.hpp, expected >= 6" % n)
    # every state change that can make a predicate true is followed by the matching notify
    pairs = {"push_back": "_condNotEmpty", "emplace_back": "_condNotEmpty", "pop_front": "_condNotFull"}
    for f in _bq_methods(fb):
        for e in f.stmts():
            m = _queue_call(e.node, pairs)
            if not m:
                continue
            r.instance()
            cvf = BQ + "::" + pairs[m]

            def is_notify(x, cvf=cvf):
                return x.kind == "stmt" and x.node.get("k") == "mcall" and last(x.node.get("callee", "")) in ("notify_one", "notify_all") \
                    and field_of(x.node.get("obj")) == cvf
            w = search(f, e, "exit", stop=is_notify, eh=False)
            r.expect(w is None, f, e, "%s without notify %s" % (m, pairs[m]),
                     "a path from _queue.%s() to the function exit does not notify %s: a waiter whose condition became true is not woken" % (m, pairs[m]),
                     okdesc="%s: %s is followed by notify on %s on every path" % (short(f.name), m, pairs[m]),
                     witness=witness_str(f, w))
    # close(): sets the flag and notifies both CVs on every path where the flag was flipped
    close = fb.func(BQ + "::close")
    flips = [e for e in close.stmts() if e.node.get("k") == "mcall" and field_of(e.node.get("obj")) == BQ + "::_closed"
             and last(e.node.get("callee", "")) in ("exchange", "store")] + \
            [e for e in close.stmts() if e.node.get("k") in ("opcall", "bin") and e.node.get("op") == "=" and
             field_of((e.node.get("args") or [e.node.get("lhs")])[0]) == BQ + "::_closed"]
    if not flips:
        r.fail(close, None, "close sets _closed", "close() no longer sets the closed flag")
    for e in flips:
        for cv in ("_condNotEmpty", "_condNotFull"):
            r.instance()

            def is_notify_all(x, cv=cv):
                return x.kind == "stmt" and x.node.get("k") == "mcall" and last(x.node.get("callee", "")) == "notify_all" \
                    and field_of(x.node.get("obj")) == BQ + "::" + cv
            # the "already closed" early return is the only path allowed to skip the notify: it is the true
            # edge of the exchange result; we accept skipping only through a return that directly follows a
            # branch on the flip's own result
            def edge_ok(b, si, e=e):
                c = b.cond
                if c is not None and c.get("id") == e.node.get("id") and b.edge_label(si) is True:
                    return False   # exchange returned true: was already closed, somebody else notified
                return True
            w = search(close, e, "exit", stop=is_notify_all, edge_ok=edge_ok, eh=False)
            r.expect(w is None, close, e, "close without notify_all %s" % cv,
                     "close() can return after flipping the flag without notify_all on %s: blocked callers are not woken" % cv,
                     okdesc="close(): flag flip is followed by notify_all on %s" % cv, witness=witness_str(close, w))
    # close() never removes items
    for e in close.stmts():
        m = _queue_call(e.node)
        if m in access.MUTATORS:
            r.fail(close, e, "close mutates _queue", "close() calls _queue.%s(): items put before close must stay retrievable" % m)


# ------------------------------------------------------------------ R3 (predicate abstraction)

def _mk_leaf(boolvars):
    def leaf(n):
        k = n.get("k")
        # _closed / _closed.load(...)
        if k == "mcall" and field_of(n.get("obj")) == BQ + "::_closed" and (last(n["callee"]) == "load" or last(n["callee"]).startswith("operator")):
            return A("closed")
        if k == "member" and n.get("n") == BQ + "::_closed":
            return A("closed")
        if k == "mcall" and _queue_call(n, ("empty",)):
            return Not(A("nonempty"))
        if k == "bin" and n["op"] in ("<", ">", "<=", ">=", "==", "!="):
            l, rr = strip_casts(n["lhs"]), strip_casts(n["rhs"])
            lsz = l.get("k") == "mcall" and _queue_call(l, ("size",))
            rsz = rr.get("k") == "mcall" and _queue_call(rr, ("size",))
            lmax = field_of(l) == BQ + "::_maxSize" if l.get("k") == "member" else False
            rmax = field_of(rr) == BQ + "::_maxSize" if rr.get("k") == "member" else False
            op = n["op"]
            if lsz and rmax:
                if op == "<":
                    return A("notfull")
                if op in (">=", "=="):
                    return Not(A("notfull"))
                return None
            if lmax and rsz:
                if op == ">":
                    return A("notfull")
                if op in ("<=", "=="):
                    return Not(A("notfull"))
                return None
            z = const_value(rr)
            if lsz and z == 0:
                if op in (">", "!="):
                    return A("nonempty")
                if op in ("==", "<="):
                    return Not(A("nonempty"))
            return None
        if k == "var" and ("v:" + n["n"]) in boolvars:
            return A("v:" + n["n"])
        return None
    return leaf


def r3(ctx, r):
    fb = ctx.fb()
    la = ctx.locks()
    shared = ["notfull", "closed", "nonempty"]
    nsites = 0
    for f in _bq_methods(fb):
        if f.kind == "lambda":
            continue
        # boolean locals initialised from a timed wait
        boolvars = set()
        for e in f.stmts():
            if e.node.get("k") == "decl":
                for v in e.node["vars"]:
                    if v["t"] == "bool":
                        boolvars.add("v:" + v["n"])
        vocab = Vocab(shared + sorted(boolvars))
        leaf = _mk_leaf(boolvars)

        def pred_formula(call):
            args = [a for a in call["args"] if not a.get("def")]
            P = common._resolve_pred(fb, f, args[-1]) if args else None
            if P is None:
                return None
            rets = [x.node for x in P.stmts() if x.node.get("k") == "ret"]
            if len(rets) != 1:
                return None
            return translate(rets[0].get("v"), leaf)

        def effects(e, f=f):
            if e.kind != "stmt":
                return None
            n = e.node
            k = n.get("k")
            if k == "decl":
                ops = []
                if any(v["t"].startswith(("std::unique_lock", "std::lock_guard", "std::scoped_lock")) for v in n["vars"]):
                    # whatever was read before the lock was taken may be stale once it is held: close() can run in between
                    ops.append(("havoc_all", shared))
                for v in n["vars"]:
                    i = strip_wrappers(v.get("init")) if v.get("init") else None
                    if i is not None and i.get("k") == "mcall" and last(i.get("callee", "")) in ("wait_for", "wait_until"):
                        fm = pred_formula(i)
                        ops.append(("havoc_all", shared))
                        tf = total(fm)
                        if ("v:" + v["n"]) in boolvars:
                            if tf is not None:
                                ops.append(("assign", "v:" + v["n"], tf))
                            else:
                                ops.append(("havoc", "v:" + v["n"]))
                return ops
            if k == "mcall":
                c = last(n.get("callee", ""))
                if n.get("callee", "").startswith("std::condition_variable"):
                    if c == "wait":
                        # only a root-level wait is modelled here (decl-initialisers are handled above)
                        fm = pred_formula(n) if len([a for a in n["args"] if not a.get("def")]) >= 2 else None
                        return [("havoc_all", shared), ("assume", known_when(fm, True))]
                    if c in ("wait_for", "wait_until"):
                        pe = f.parent.get(n["id"])
                        if pe is not None and f.nodes[pe].get("k") == "decl":
                            return None
                        return [("havoc_all", shared)]
                if c in ("unlock",) and n.get("callee", "").startswith("std::unique_lock"):
                    return [("havoc_all", shared)]
                m = _queue_call(n)
                if m in ("push_back", "emplace_back", "push_front", "emplace_front", "insert", "emplace"):
                    return [("havoc", "notfull"), ("set", "nonempty", True)]
                if m in ("pop_front", "pop_back", "erase", "clear"):
                    return [("havoc", "nonempty")]
            return None

        pa = PredAbs(f, vocab, leaf, effects)
        for e in f.stmts():
            m = _queue_call(e.node)
            if not m:
                continue
            if m in ("push_back", "emplace_back"):
                nsites += 1
                r.instance()
                ok = pa.entails(e, And(A("notfull"), Not(A("closed")))) and la.holds(f, e, BQ + "::_mutex")
                r.expect(ok, f, e, "push_back unguarded",
                         "on some path to this insertion the queue is not known to be below capacity and open "
                         "(known here: %s) — the capacity bound or the closed contract can be violated" % (", ".join(pa.describe(e)) or "nothing"),
                         okdesc="%s: push_back only when size<max and !closed (%s)" % (f.sig.split("::")[-1], ",".join(pa.describe(e))))
            elif m in ("push_front", "emplace_front", "insert", "emplace"):
                r.instance()
                r.fail(f, e, "insert not at back", "_queue.%s(): items must be inserted at the back only (FIFO end discipline)" % m)
            elif m in ("front", "pop_front"):
                nsites += 1
                r.instance()
                ok = pa.entails(e, A("nonempty")) and la.holds(f, e, BQ + "::_mutex")
                r.expect(ok, f, e, "%s unguarded" % m,
                         "_queue.%s() reachable with the queue not known to be non-empty (known: %s)" % (m, ", ".join(pa.describe(e)) or "nothing"),
                         okdesc="%s: %s only when non-empty" % (f.sig.split("::")[-1], m))
            elif m in ("pop_back", "erase", "clear", "back", "resize", "swap", "assign"):
                r.instance()
                r.fail(f, e, "removal not at front", "_queue.%s(): items leave the queue only through front()+pop_front() (lossless FIFO)" % m)
        # each item is taken exactly once: front() is read then popped in the same critical section
        for e in f.stmts():
            if _queue_call(e.node, ("front",)):
                r.instance()

                def is_pop(x):
                    return x.kind == "stmt" and _queue_call(x.node, ("pop_front",)) is not None

                def is_unlock(x):
                    return x.kind == "stmt" and x.node.get("k") == "mcall" and x.node.get("callee") == "std::unique_lock::unlock"
                w = search(f, e, "exit", stop=is_pop, eh=False)
                w2 = search(f, e, is_unlock, stop=is_pop, eh=False)
                r.expect(w is None and w2 is None, f, e, "front without pop",
                         "the item read by front() is not removed by pop_front() before the lock is released / the function returns: "
                         "it could be delivered twice", okdesc="%s: front() then pop_front() in one critical section" % f.sig.split("::")[-1],
                         witness=witness_str(f, w or w2))
            if _queue_call(e.node, ("pop_front",)):
                r.instance()
                fronts = [x for x in f.stmts() if _queue_call(x.node, ("front",)) and elem_dominates(f, x, e)]
                r.expect(bool(fronts), f, e, "pop without front", "pop_front() discards an item that was not read by a dominating front(): an item is lost",
                         okdesc="pop_front dominated by front()")
    r.floor(14, "push/front/pop sites")


# ------------------------------------------------------------------ R4/R5 (SPSC ring buffers)

def _atomic_ops(f, cls):
    """[(elem, field, 'load'|'store'|'rmw', order-name)] for _head/_tail"""
    out = []
    for e in f.stmts():
        n = e.node
        if n.get("k") == "mcall":
            fld = field_of(n.get("obj"))
            if fld in (cls + "::_head", cls + "::_tail"):
                m = last(n.get("callee", ""))
                order = "std::memory_order_seq_cst"
                for a in n["args"]:
                    if a.get("k") == "enum" and a["n"].startswith("std::memory_order"):
                        order = a["n"]
                        break
                    if a.get("k") == "cast" and a.get("v", {}).get("k") == "enum":
                        order = a["v"]["n"]
                        break
                kind = {"load": "load", "store": "store"}.get(m, "load" if m.startswith("operator") and not m.endswith("=") else "rmw")
                out.append((e, last(fld), kind, order))
        elif n.get("k") == "opcall" and n.get("memberop") and n["args"]:
            fld = field_of(n["args"][0])
            if fld in (cls + "::_head", cls + "::_tail"):
                out.append((e, last(fld), "store" if n["op"] == "=" else "rmw", "std::memory_order_seq_cst"))
    return out


def _buffer_accesses(f, cls):
    res = []
    for n in f.nodes.values():
        if n.get("k") == "member" and n.get("n") == cls + "::_buffer":
            # the element expression is the parent idx / operator[]
            pid = f.parent.get(n["id"])
            p = f.nodes.get(pid) if pid is not None else None
            while p is not None and p.get("k") in ("cast",):
                pid = f.parent.get(p["id"])
                p = f.nodes.get(pid) if pid is not None else None
            if p is not None and (p.get("k") == "idx" or (p.get("k") == "opcall" and p.get("op") == "[]")):
                kind = access.classify(f, p)
                res.append((f.elem_for(p), p, kind))
    return res


QUIESCENT = {"size": "documented: approximate, not for synchronisation", "empty": "via size()", "full": "via size()",
             "clear": "documented: requires SPSC quiescence", "resize": "documented: NOT thread-safe, requires quiescence",
             "capacity": "constant"}


def r4_r5(ctx, r4, r5):
    fb = ctx.fb()
    roles = 0
    for cls in RB_CLASSES:
        ms = [f for f in fb.functions if f.ok and f.cls == cls and f.kind == "method" and f.file.endswith(RB_FILE)]
        if len(ms) < 8:
            raise AnalysisBroken("%s: %d method bodies found" % (cls, len(ms)))
        for f in ms:
            ops = _atomic_ops(f, cls)
            bufs = _buffer_accesses(f, cls)
            stores = {fld for (_, fld, k, _) in ops if k in ("store", "rmw")}
            name = last(f.name)
            if name in QUIESCENT and not (bufs and name not in ("resize",)):
                if ops:
                    r4.note("%s::%s exempt — %s" % (last(cls), name, QUIESCENT[name]))
                continue
            writes_buf = any(k in ("write", "rw") for (_, _, k) in bufs)
            reads_buf = any(k == "read" for (_, _, k) in bufs)
            if not ops:
                continue
            role = None
            if stores == {"_head"} or (writes_buf and not stores):
                role = "producer"
            elif stores == {"_tail"} or (reads_buf and not stores):
                role = "consumer"
            elif stores == {"_head", "_tail"}:
                r4.fail(f, None, "stores both indices", "%s stores both _head and _tail but is not one of the documented quiescent operations" % f.sig)
                continue
            if role is None:
                continue
            roles += 1
            mine, other = ("_head", "_tail") if role == "producer" else ("_tail", "_head")
            for (e, fld, kind, order) in ops:
                r4.instance()
                if kind == "load" and fld == other:
                    r4.expect(order in ACQ, f, e, "load %s %s" % (fld, last(order).replace("memory_order_", "")),
                              "%s side loads the other side's index %s with %s: the %s's access to the slot does not happen-before this side's "
                              "re-use of it (data race under the C++ memory model; needs acquire)" % (
                                  role, fld, last(order), "consumer" if role == "producer" else "producer"),
                              okdesc="%s::%s (%s) loads %s with %s" % (last(cls), name, role, fld, last(order)))
                elif kind in ("store", "rmw") and fld == mine:
                    r4.expect(order in REL, f, e, "store %s %s" % (fld, last(order).replace("memory_order_", "")),
                              "%s side publishes %s with %s: the slot access is not ordered before the publication (needs release)" % (role, fld, last(order)),
                              okdesc="%s::%s (%s) stores %s with %s" % (last(cls), name, role, fld, last(order)))
                else:
                    r4.ok()
            # R5: slot access before publication, bounded by the full/empty test
            pubs = [e for (e, fld, kind, _) in ops if kind in ("store", "rmw") and fld == mine]
            for (be, bn, bk) in bufs:
                r5.instance()
                for pe in pubs:
                    w = search(f, pe, lambda x, be=be: x is be, eh=False)
                    r5.expect(w is None, f, be, "slot access after publish",
                              "a slot access is reachable after the index store that publishes it", witness=witness_str(f, w),
                              okdesc="%s::%s: slot access precedes the %s store" % (last(cls), name, mine))
                _bound_obligation(r5, f, cls, role, be, bn)
    if roles < 12:
        raise AnalysisBroken("C10-R4: only %d producer/consumer functions classified, expected 12" % roles)


def _local_init(f, var):
    for e in f.stmts():
        if e.node.get("k") == "decl":
            for v in e.node["vars"]:
                if v["d"] == var.get("d"):
                    return strip_wrappers(v.get("init")) if v.get("init") else None
    return None


def _is_index_load(f, cls, n, fld):
    """n is a local variable initialised from <fld>.load() (or the load itself)"""
    n = strip_casts(n)
    if n is None:
        return False
    if n.get("k") == "var":
        n = _local_init(f, n)
        if n is None:
            return False
    return n.get("k") == "mcall" and field_of(n.get("obj")) == cls + "::" + fld


def _is_capacity(f, cls, n):
    n = strip_casts(n)
    if n is None:
        return False
    if n.get("k") == "member" and n["n"] in (cls + "::_capacity",):
        return True
    if n.get("k") in ("int",) or "cv" in n and n.get("k") not in ("bin",):
        return n.get("cv") is not None and n["cv"] > 0
    if n.get("k") == "gvar" and last(n["n"]) in ("Capacity",):
        return True
    return False


def _is_used(f, cls, n):
    """head - tail"""
    n = strip_casts(n)
    return n is not None and n.get("k") == "bin" and n["op"] == "-" and _is_index_load(f, cls, n["lhs"], "_head") and _is_index_load(f, cls, n["rhs"], "_tail")


def _min_of(n):
    """(a, b) if n computes min(a, b)"""
    n = strip_casts(n)
    if n is None:
        return None
    if n.get("k") == "cond":
        c = strip_casts(n["c"])
        if c.get("k") == "bin" and c["op"] in ("<", "<=", ">", ">="):
            a, b = strip_casts(c["lhs"]), strip_casts(c["rhs"])
            t, fl = strip_casts(n["t"]), strip_casts(n["f"])
            same = lambda x, y: show(x) == show(y)
            if c["op"] in ("<", "<=") and same(t, a) and same(fl, b):
                return a, b
            if c["op"] in (">", ">=") and same(t, b) and same(fl, a):
                return a, b
    if n.get("k") == "call" and n.get("callee") == "std::min" and len(n["args"]) >= 2:
        return strip_wrappers(n["args"][0]), strip_wrappers(n["args"][1])
    return None


def _bound_obligation(r5, f, cls, role, be, bn):
    """the slot access is dominated by the not-full (producer) / not-empty (consumer) edge, or sits in a loop
    bounded by min(count, available)"""
    name = last(f.name)

    def classify_cond(c):
        c = strip_casts(c)
        if c is None or c.get("k") != "bin":
            return None
        op = c["op"]
        if role == "producer" and _is_used(f, cls, c["lhs"]) and _is_capacity(f, cls, c["rhs"]):
            return {">=": "blocked", "==": "blocked", "<": "free", "!=": "free"}.get(op)
        if role == "consumer":
            lt, rh = _is_index_load(f, cls, c["lhs"], "_tail"), _is_index_load(f, cls, c["rhs"], "_head")
            lh, rt = _is_index_load(f, cls, c["lhs"], "_head"), _is_index_load(f, cls, c["rhs"], "_tail")
            if lt and rh:
                return {">=": "blocked", "==": "blocked", "<": "free", "!=": "free"}.get(op)
            if lh and rt:
                return {"<=": "blocked", "==": "blocked", ">": "free", "!=": "free"}.get(op)
        return None
    # (a) single-slot form
    from ..cfg import dominated_by_edge
    for b in f.blocks.values():
        c = b.cond
        if c is None or b.term["k"] != "IfStmt":
            continue
        cl = classify_cond(c)
        if cl is None:
            continue
        free_edge = 1 if cl == "blocked" else 0
        if dominated_by_edge(f, be, b, free_edge, eh=False):
            r5.ok("%s::%s: slot access dominated by the %s edge of `%s`" % (last(cls), name, "false" if free_edge else "true", show(c)))
            return
    # (b) batch form: enclosing loop `i < n` with n = min(count, available), available = cap - (head - tail) | head - tail
    for b in f.blocks.values():
        if b.term and b.term["k"] in ("ForStmt", "WhileStmt") and b.cond is not None:
            c = strip_casts(b.cond)
            if c.get("k") == "bin" and c["op"] == "<" and dominated_by_edge(f, be, b, 0, eh=False):
                lim = strip_casts(c["rhs"])
                init = _local_init(f, lim) if lim.get("k") == "var" else lim
                mn = _min_of(init)
                if mn:
                    for cand in mn:
                        ci = _local_init(f, cand) if cand.get("k") == "var" else cand
                        ci = strip_casts(ci) if ci else None
                        if ci is None:
                            continue
                        if role == "producer" and ci.get("k") == "bin" and ci["op"] == "-" and _is_capacity(f, cls, ci["lhs"]) and _is_used(f, cls, ci["rhs"]):
                            r5.ok("%s::%s: batch loop bounded by min(count, capacity - (head - tail))" % (last(cls), name))
                            return
                        if role == "consumer" and _is_used(f, cls, ci):
                            r5.ok("%s::%s: batch loop bounded by min(maxCount, head - tail)" % (last(cls), name))
                            return
    r5.fail(f, be, "slot access unbounded",
            "the slot access `%s` is not dominated by the %s test (`head - tail >= capacity` / `tail >= head`) nor inside a loop bounded by "
            "min(count, available): the %s can overrun the other side" % (show(bn), "full" if role == "producer" else "empty", role))


def r6(ctx, r):
    """DynamicRingBuffer::resize (sequential by contract): the new buffer holds the min(count, newCapacity) most recent items in
    their order, and the indices it publishes describe exactly that.  Every index expression of the function is evaluated
    exactly over a finite domain of (capacity, tail, count, new capacity, i) — arithmetic identities, nothing is run."""
    import itertools
    from ..finite import compile_expr, NotPure
    DRB = "iora::core::DynamicRingBuffer"
    fs = [f for f in ctx.fb().funcs(DRB + "::resize") if f.ok]
    if not fs:
        raise AnalysisBroken("DynamicRingBuffer::resize not found")
    f = fs[0]
    inits, types = {}, {}
    for e in f.stmts():
        if e.node.get("k") == "decl":
            for dv in e.node["vars"]:
                types[dv["d"]] = dv.get("t")
                if dv.get("init") is not None:
                    inits[dv["d"]] = dv["init"]
    # roles: the two index snapshots and the new capacity are free; everything else is inlined down to them
    role = {}
    for d, i in inits.items():
        i0 = strip_casts(strip_wrappers(i))
        if i0.get("k") == "mcall" and last(i0.get("callee", "")) == "load":
            role[d] = {DRB + "::_tail": "tail", DRB + "::_head": "head"}.get(field_of(i0.get("obj")))
        elif i0.get("k") in ("call", "mcall") and last(i0.get("callee", "")) == "nextPowerOfTwo":
            role[d] = "ncap"
    if sorted(v for v in role.values() if v) != ["head", "ncap", "tail"]:
        raise AnalysisBroken("resize: head/tail snapshots or the rounded new capacity not identified (%s)" % sorted(str(v) for v in role.values()))
    loopvars = set()

    def inline(n, depth=0):
        if isinstance(n, list):
            return [inline(x, depth) for x in n]
        if not isinstance(n, dict):
            return n
        if n.get("k") == "var":
            d = n.get("d")
            if role.get(d):
                return {"k": "var", "n": role[d], "t": "unsigned long", "d": -1}
            if d in loopvars:
                return {"k": "var", "n": "i", "t": "unsigned long", "d": -2}
            if d in inits and depth < 8:
                return inline(inits[d], depth + 1)
        if n.get("k") == "member" and n["n"] == DRB + "::_mask":
            return {"k": "var", "n": "mask", "t": "unsigned long", "d": -3}
        if n.get("k") == "member" and n["n"] == DRB + "::_capacity":
            return {"k": "var", "n": "cap", "t": "unsigned long", "d": -4}
        return {k: inline(v, depth) if isinstance(v, (dict, list)) else v for k, v in n.items()}
    NAMES = ["head", "tail", "ncap", "mask", "cap", "i"]

    def ev(node, what):
        try:
            fn, _t, _c = compile_expr(inline(strip_casts(node)), NAMES)
        except NotPure as ex:
            raise AnalysisBroken("resize: %s `%s` is not a pure index expression (%s)" % (what, show(node)[:50], ex))
        return fn
    # the copy: one counted loop whose body is one element move
    loops = [b for b in f.blocks.values() if b.term and b.term.get("k") in ("ForStmt", "WhileStmt") and b.cond is not None]
    moves = [e for e in f.stmts() if e.node.get("k") in ("call", "mcall") and last(e.node.get("callee", "")) in ("move", "copy", "copy_n", "memcpy", "memmove", "move_backward", "uninitialized_move")
             and len(e.node.get("args", [])) >= 3]
    r.instance()
    if len(loops) != 1 or moves:
        raise AnalysisBroken("resize: the copy is not one per-index loop (%d loops, %d range copies) — a form this rule does not evaluate" % (len(loops), len(moves)))
    lb = loops[0]
    def is_counter(x):
        x = strip_casts(x)
        return x.get("k") == "var" and x.get("d") in inits and const_value(inits[x["d"]]) == 0
    cp = common.cmp_oriented(lb.cond, lambda x: not is_counter(x))
    iv = strip_casts(cp[1]) if cp else None
    if not cp or cp[0] != "<" or iv.get("k") != "var" or const_value(inits.get(iv.get("d"), {})) != 0:
        raise AnalysisBroken("resize: loop is not `for (i = 0; i < n; ++i)`")
    loopvars.add(iv["d"])
    bound = ev(cp[2], "loop bound")
    body = [e for e in f.stmts() if e.raw.get("root") and e.node.get("k") in ("opcall", "bin") and e.node.get("op") == "=" and search(f, ("block", lb.succs[0]), lambda x, e=e: x is e, stop=lambda x: x.block is lb, eh=False) is not None]
    if len(body) != 1:
        raise AnalysisBroken("resize: loop body is not a single element assignment (%d)" % len(body))
    asg = body[0].node
    lhs, rhs = (asg["args"][0], asg["args"][1]) if asg.get("k") == "opcall" else (asg["lhs"], asg["rhs"])

    def index_of(n):
        for x in walk(n):
            if x.get("k") in ("opcall", "idx") and (x.get("op") == "[]" or x.get("k") == "idx"):
                return x["args"][1] if x.get("k") == "opcall" else (x.get("i") or x.get("idx") or x.get("rhs"))
        return None
    di, si = index_of(lhs), index_of(rhs)
    if di is None or si is None:
        raise AnalysisBroken("resize: element assignment `%s` not of the form new[..] = old[..]" % show(asg)[:60])
    dst, src = ev(di, "destination index"), ev(si, "source index")
    heads = [e for e in f.stmts() if e.node.get("k") == "mcall" and last(e.node.get("callee", "")) == "store" and field_of(e.node.get("obj")) == DRB + "::_head"]
    tails = [e for e in f.stmts() if e.node.get("k") == "mcall" and last(e.node.get("callee", "")) == "store" and field_of(e.node.get("obj")) == DRB + "::_tail"]
    masks = [(e, n) for (e, n, k) in common.field_writes(f, DRB + "::_mask")]
    caps = [(e, n) for (e, n, k) in common.field_writes(f, DRB + "::_capacity")]
    rets = common.returns(f)
    if not (len(heads) == len(tails) == len(masks) == len(caps) == len(rets) == 1):
        raise AnalysisBroken("resize: expected one store each to _head/_tail/_mask/_capacity and one return")
    nh, nt = ev(heads[0].node["args"][0], "_head value"), ev(tails[0].node["args"][0], "_tail value")
    nm, nc = ev(common.assigned_value(f, masks[0][1]), "_mask value"), ev(common.assigned_value(f, caps[0][1]), "_capacity value")
    rv = ev(rets[0].node["v"], "return value")
    bad = {}
    npts = 0
    M = 2 ** 64
    for cap in (1, 2, 4, 8):
        for tail in list(range(0, 2 * cap)) + [M - 3, M - 1]:
            for count in range(0, cap + 1):
                for ncap in (1, 2, 4, 8, 16):
                    head = (tail + count) % M
                    keep = min(count, ncap)
                    env = dict(head=head, tail=tail, ncap=ncap, mask=cap - 1, cap=cap, i=0)
                    npts += 1
                    a = lambda fn, **kw: fn(*[dict(env, **kw)[k] for k in NAMES])
                    if a(bound) != keep:
                        bad.setdefault("loop bound", (env, a(bound), keep))
                    if (a(nh) - a(nt)) % M != keep:
                        bad.setdefault("published count", (env, (a(nh) - a(nt)) % M, keep))
                    if a(nm) != ncap - 1 or a(nc) != ncap:
                        bad.setdefault("published capacity/mask", (env, (a(nc), a(nm)), (ncap, ncap - 1)))
                    if a(rv) != count - keep:
                        bad.setdefault("dropped count", (env, a(rv), count - keep))
                    for k in range(keep):
                        want_src = (head - keep + k) % M & (cap - 1)
                        if a(src, i=k) != want_src:
                            bad.setdefault("source index", (dict(env, i=k), a(src, i=k), want_src))
                        want_dst = (a(nt) + k) % M & (ncap - 1)
                        if a(dst, i=k) != want_dst:
                            bad.setdefault("destination index", (dict(env, i=k), a(dst, i=k), want_dst))
    for what in ("loop bound", "source index", "destination index", "published count", "published capacity/mask", "dropped count"):
        r.instance()
        b = bad.get(what)
        r.expect(b is None, f, body[0] if "index" in what else None, "resize: %s" % what,
                 "DynamicRingBuffer::resize: %s is %s where the k-th kept item (oldest first among the min(count, newCapacity) most recent) requires %s, e.g. for %s: items are lost, duplicated or reordered by a resize"
                 % (what, b[1] if b else "", b[2] if b else "", {k: v for k, v in (b[0] if b else {}).items()}), okdesc="resize: %s exact on %d states" % (what, npts))


def r7(ctx, r):
    """'…close and destruction across any number of producers and consumers … no data race': the destructor wakes the parked
    callers, but a woken caller is still INSIDE wait(): it re-locks the mutex and re-reads the queue and the closed flag.  The
    members may therefore be destroyed only after every parked caller has left — a waiter count maintained under the mutex
    around every wait, and a destructor that waits for it to reach zero."""
    fb, la = ctx.fb(), ctx.locks()
    ms = _bq_methods(fb)
    dt = [f for f in ms if f.kind == "dtor"]
    if len(dt) != 1:
        raise AnalysisBroken("~BlockingQueue: %d bodies" % len(dt))
    d = dt[0]

    def cv_waits(f):
        return [e for e in f.stmts() if e.node.get("k") == "mcall" and e.node.get("callee", "").startswith("std::condition_variable") and last(e.node["callee"]) in common.CV_WAIT]
    # which counter does the destructor wait for?
    counter = None
    for e in cv_waits(d):
        args = [a for a in e.node.get("args", []) if not a.get("def")]
        P = common._resolve_pred(fb, d, args[-1]) if args else None
        if P is None:
            continue
        for x in P.nodes.values():
            if x.get("k") == "member" and x["n"].startswith(BQ + "::") and x["n"] not in (BQ + "::_queue", BQ + "::_closed", BQ + "::_maxSize"):
                counter = x["n"]
    r.instance()
    if not r.expect(counter is not None, d, None, "destroyed under woken callers", "~BlockingQueue closes the queue (waking every parked caller) and returns at once: the members are destroyed while the woken callers are still "
                    "inside condition_variable::wait — re-locking _mutex, re-reading _queue and _closed — a use of destroyed objects (heap-use-after-free for a heap-allocated queue) and a data race",
                    okdesc="destructor waits for the parked callers to leave"):
        return
    # every wait of every operation is bracketed by ++counter / --counter under the mutex
    def touches(f, e, up):
        n = e.node
        ops = ("++", "pre++", "post++", "+=") if up else ("--", "pre--", "post--", "-=")
        if n.get("k") in ("un", "bin", "opcall") and n.get("op") in ops and any(x.get("k") == "member" and x["n"] == counter for x in walk(n)):
            return True
        if not up and n.get("k") == "mcall":
            for g in fb.by_name.get(n.get("callee"), []):
                if g.ok and any(y.get("k") in ("un", "bin") and y.get("op") in ops and any(x.get("k") == "member" and x["n"] == counter for x in walk(y)) for y in g.nodes.values()):
                    return True
        return False
    nw = 0
    for f in ms:
        if f is d or f.kind == "lambda":
            continue
        for w in cv_waits(f):
            nw += 1
            r.instance()
            ups = [e for e in f.stmts() if touches(f, e, True) and elem_dominates(f, e, w) and la.holds(f, e, BQ + "::_mutex")]
            downs = [e for e in f.stmts() if touches(f, e, False)]
            esc = search(f, w, "exit", stop=lambda x: x in downs, eh=False)
            r.expect(bool(ups) and esc is None, f, w, "wait not counted", "%s parks without announcing itself in %s (++ under _mutex before the wait, -- after it on every path): the destructor cannot know this caller is "
                     "still inside wait()" % (short(f.name), short(counter)), okdesc="%s: wait bracketed by the waiter count" % short(f.name))
    if nw < 6:
        raise AnalysisBroken("BlockingQueue: only %d waits found" % nw)


def run(ctx, ck):
    ck.run_rule("C10-R1", "BlockingQueue::_queue is accessed only under _mutex", "A1 lockset", lambda r: r1(ctx, r))
    ck.run_rule("C10-R2", "condition-variable discipline: no lost wake-up; every state change notifies", "A1 lockset + A2 must-pass", lambda r: r2(ctx, r))
    ck.run_rule("C10-R6", "DynamicRingBuffer::resize keeps the most recent items in order and publishes matching indices", "exact finite-domain evaluation of the index expressions", lambda r: r6(ctx, r))
    ck.run_rule("C10-R7", "the queue is not destroyed while woken callers are still inside wait()", "protocol rule: waiter count bracketing every wait + destructor wait", lambda r: r7(ctx, r))
    ck.run_rule("C10-R3", "capacity bound, closed contract and FIFO end discipline on every path", "A5 predicate abstraction + A2", lambda r: r3(ctx, r))
    r4 = ck.rule("C10-R4", "SPSC index operations carry acquire/release by role", "A6 atomic-order table")
    r5 = ck.rule("C10-R5", "slot access is bounded by the full/empty test and precedes publication", "A2 dominance")
    try:
        r4_r5(ctx, r4, r5)
    except AnalysisBroken as ex:
        r4.broken = str(ex)
        ck.broken.append("C10-R4/R5: %s" % ex)
