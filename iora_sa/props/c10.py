"""C10 — Bounded queues are FIFO, lossless, capacity-bounded and race-free (DESIGN.md §2 C10)."""
from .. import access
from ..cfg import search, witness_str, elem_dominates
from ..expr import show, walk, last, field_of, strip_wrappers, strip_casts, short, const_value
from ..facts import AnalysisBroken
from ..predabs import Vocab, PredAbs, A, Not, And, Or, T, translate, known_when, total
from ..rules import common

TITLE = "Bounded queues are FIFO, lossless, capacity-bounded and race-free"
TECHNIQUE = 'custom static analysis over clang-14 CFG facts: atomic memory-order tables per access site (release/acquire pairing), must-lockset, same-critical-section rule, condition-variable discipline'
BQ = "iora::core::BlockingQueue"
BQ_FILE = "iora/core/blocking_queue.hpp"
RB_FILE = "iora/core/ring_buffer.hpp"
RB_CLASSES = ("iora::core::RingBuffer", "iora::core::DynamicRingBuffer")

EXPLANATION = (
    "Static discharge of necessary structural obligations of C10 over the instantiated bodies of "
    "BlockingQueue<int>, RingBuffer<int,8> and DynamicRingBuffer<int>: R1 every access to the deque holds the "
    "queue mutex (must-lockset dataflow); R2 condition-variable discipline: every variable read by an untimed wait "
    "predicate is written only under the wait's mutex (or the mutex is taken between write and notify), and every "
    "push/pop/close is followed on all paths by the matching notify; R3 predicate abstraction over {notfull, closed, "
    "nonempty, <timed-wait result>} proves on every path that a push happens only when not full and not closed and a "
    "front()/pop_front() only when non-empty, insertion only at the back, removal only at the front, close() removes "
    "nothing; R4 memory orders of the SPSC index operations by producer/consumer role; R5 slot access is bounded by "
    "the full/empty test and precedes the index publication; a plain member that an operation assigns from a load of the other side's "
    "index is that side's cached copy of it and may stand in for the index in the test only if it is touched by that side alone, written "
    "there from loads of the index only, and re-established by every function that renumbers the positions (clear, resize). Calls to "
    "private helpers of the same class are followed (single-expression helpers are read as their expression; a helper's entry knows what "
    "its call sites know; paths continue behind the call sites). Decides these clauses, not linearizability itself.")
NOT_DECIDED = ["linearizability / per-producer order as a history property (R3 gives the end discipline + lock order)",
               "fairness", "wrap-around of size_t indices after 2^64 operations",
               "resize()/clear() under concurrency (documented as requiring quiescence)"]
# exempt from the function-inventory guard (report.py): these rules look into / out of functions they have never seen
FOLLOWS_HELPERS = {
    "C10-R2": "the push/pop → notify and flag-flip → notify_all obligations treat a helper every path of which notifies as the notify and continue behind the call sites "
              "of a private helper that holds the change; the variables a wait predicate reads are collected through the helpers it calls; a flag flip moved into a helper is refused",
    "C10-R5": "slot accesses, full/empty tests and index loads are read through expression helpers of the class (the call is the helper's returned expression over the "
              "arguments); an unbounded access behind a call to any other helper of the class, and an index cache refreshed inside a helper, are refused, not reported",
    "C10-R6": "exact evaluation: every index expression is evaluated after putting expression helpers in place; whatever else a helper could hide (a call inside an index "
              "expression, an index store moved out of resize) makes the rule refuse",
    "C10-R3": "the entry state of a private helper is the union of what its callers know at the call sites, wait predicates and conditions are read through expression "
              "helpers, front/pop pairing is followed through helpers and call sites; a site that a lock-taking/waiting helper may guard is refused, not reported",
}
ASSUMPTIONS = ["_closed is treated as stable while _mutex is held; R2 discharges exactly that (writes of _closed hold _mutex)"]

ACQ = {"std::memory_order_acquire", "std::memory_order_seq_cst", "std::memory_order_acq_rel", "std::memory_order_consume"}
REL = {"std::memory_order_release", "std::memory_order_seq_cst", "std::memory_order_acq_rel"}


def _bq_methods(fb):
    ms = [f for f in fb.functions if f.ok and f.file.endswith(BQ_FILE) and (f.cls == BQ or (f.kind == "lambda" and f.name.startswith(BQ + "::")))]
    if len(ms) < 15:
        raise AnalysisBroken("BlockingQueue: only %d function bodies found (explicit instantiation missing?)" % len(ms))
    return ms


def _queue_call(n, names=None):
    """n is a member call on the deque field `_queue`; returns method name or None"""
    if n.get("k") not in ("mcall", "opcall"):
        return None
    o = n.get("obj") if n.get("k") == "mcall" else (n["args"][0] if n.get("memberop") and n["args"] else None)
    if o is None or field_of(o) != BQ + "::_queue":
        return None
    m = last(n.get("callee", ""))
    if names and m not in names:
        return None
    return m


# ------------------------------------------------------------------ helpers of the same class (general; nothing here knows a helper's name)
#
# A behaviour-preserving refactoring moves a test, a slot access or a push/unlock/notify tail into a private member function.
# The rules below follow such calls in three ways, all derived from the resolved program:
#   * expression helpers — a member function whose whole body is `return <expr>;` called on `this`: the call IS that expression
#     with the arguments in place of the parameters (_inline); conditions, wait predicates and slot accesses are read through it;
#   * "does X" — an element does X if it is X or a call to helper(s) of the class every entry→exit path of which does X (_does);
#   * calling contexts — what is known at the entry of a private helper is what is known at its call sites (R3), a path that
#     leaves a private helper continues after each of its call sites (_escapes), and a site in a helper stands for one site per
#     calling context (_contexts; keeps the instance floors meaningful when 6 copies of a tail become one helper with 6 callers).

def _helper_fns(fb, cls, n):
    """the member functions of `cls` a call node on the same object (`this->h(..)`, `h(..)`, static `h(..)`) resolves to"""
    if not isinstance(n, dict) or n.get("k") not in ("call", "mcall"):
        return []
    if n.get("k") == "mcall" and strip_casts(n.get("obj") or {"k": "this"}).get("k") != "this":
        return []
    nargs = len(n.get("args", []))
    return [g for g in fb.by_name.get(n.get("callee") or "", []) if g.ok and g.cls == cls and g.kind == "method" and len(g.params) == nargs]


def _expr_helper(fb, cls, n):
    """(Function, returned expression) when every overload/instantiation the call can mean has the one-statement body `return <expr>;`
    and they all return the same expression (const / non-const twins); else None"""
    gs = _helper_fns(fb, cls, n)
    out = []
    for g in gs:
        roots = [e for e in g.stmts() if "root" in e.raw]
        if len(roots) != 1 or roots[0].node.get("k") != "ret" or not isinstance(roots[0].node.get("v"), dict):
            return None
        out.append((g, roots[0].node["v"]))
    if not out or len({show(x) for (_, x) in out}) != 1:
        return None
    return out[0]


def _subst(n, table):
    """copy of a callee expression with the parameters replaced by the caller's argument nodes (callee node ids are dropped:
    they mean nothing in the caller)"""
    if isinstance(n, list):
        return [_subst(x, table) for x in n]
    if not isinstance(n, dict):
        return n
    if n.get("k") == "var" and n.get("d") in table and n.get("parm") is not None:
        return table[n["d"]]
    return {k: (_subst(v, table) if isinstance(v, (dict, list)) else v) for k, v in n.items() if k != "id"}


def _inline(fb, cls, n, depth=0):
    """n with every call to an expression helper of `cls` (at any depth of the tree) replaced by the helper's expression"""
    if isinstance(n, list):
        return [_inline(fb, cls, x, depth) for x in n]
    if not isinstance(n, dict):
        return n
    if n.get("k") in ("call", "mcall") and depth < 6:
        h = _expr_helper(fb, cls, n)
        if h is not None:
            g, body = h
            table = {p["d"]: _inline(fb, cls, a, depth) for p, a in zip(g.params, n.get("args", []))}
            return _inline(fb, cls, _subst(body, table), depth + 1)
    changed = False
    out = {}
    for k, v in n.items():
        if isinstance(v, (dict, list)):
            nv = _inline(fb, cls, v, depth)
            changed = changed or nv is not v
            out[k] = nv
        else:
            out[k] = v
    return out if changed else n


def _calls_helper(fb, cls, n):
    return any(_helper_fns(fb, cls, x) for x in walk(n))


def _is_internal(fb, cg, cls, f):
    """a private/protected member function reached only from functions (and lambdas) of its own class: its calling contexts
    are all visible"""
    if f.kind != "method" or f.access not in ("private", "protected"):
        return False
    sites = cg.callers.get(f.name, [])
    return bool(sites) and all(g.cls == cls or (g.kind == "lambda" and g.name.startswith(cls + "::")) for (g, e, n) in sites)


def _contexts(fb, cg, cls, f, depth=0):
    """number of calling contexts of f: 1 for an operation of the class, the sum over its call sites for an internal helper"""
    if depth > 6 or not _is_internal(fb, cg, cls, f):
        return 1
    return max(1, sum(_contexts(fb, cg, cls, g, depth + 1) for (g, e, n) in cg.callers.get(f.name, []) if g.ok))


def _always(fb, cls, g, pred, depth=0):
    """every path from the entry of g to its normal exit passes an element that does `pred`"""
    if depth > 4:
        return False
    return search(g, ("entry",), "exit", stop=_does(fb, cls, pred, depth + 1), eh=False) is None


def _does(fb, cls, pred, depth=0):
    """element predicate: x satisfies pred, or x is a call to helper(s) of the class each of which always does"""
    def does(x):
        if pred(x):
            return True
        if x.kind != "stmt":
            return False
        gs = _helper_fns(fb, cls, x.node)
        return bool(gs) and all(_always(fb, cls, g, pred, depth) for g in gs)
    return does


def _escapes(fb, cg, cls, f, start, stop, edge_ok=None, depth=0, also_goal=None):
    """witness string of a path from `start` (an element of f, or ('entry',)) to where the OPERATION returns (or to an element
    satisfying also_goal) that passes no element satisfying `stop`: when the path leaves an internal helper it continues behind
    each of the helper's call sites"""
    if also_goal is not None:
        w0 = search(f, start, also_goal, stop=stop, edge_ok=edge_ok, eh=False)
        if w0 is not None:
            return witness_str(f, w0)
    w = search(f, start, "exit", stop=stop, edge_ok=edge_ok, eh=False)
    if w is None:
        return None
    if not _is_internal(fb, cg, cls, f):
        return witness_str(f, w)
    if depth > 4:
        raise AnalysisBroken("%s: helper call chain deeper than this rule follows" % short(f.name))
    for (g, ce, n) in cg.callers.get(f.name, []):
        if not g.ok:
            continue
        if g.kind == "lambda":
            raise AnalysisBroken("%s is reached from a lambda (%s): the path behind that call is not followed" % (short(f.name), short(g.name)))
        w2 = _escapes(fb, cg, cls, g, ce, stop, None, depth + 1, also_goal)
        if w2 is not None:
            return "%s ⇒ %s: %s" % (witness_str(f, w), short(g.name), w2)
    return None


def _transitive_helpers(fb, cls, f, seen=None):
    """f and every helper of the class reachable from it through calls on `this`"""
    seen = {} if seen is None else seen
    if f.sig in seen:
        return seen
    seen[f.sig] = f
    for n in f.nodes.values():
        for g in _helper_fns(fb, cls, n):
            _transitive_helpers(fb, cls, g, seen)
    return seen


# ------------------------------------------------------------------ R1/R2

def r1(ctx, r):
    fb = ctx.fb()
    la = ctx.locks()
    cg = ctx.cg()
    common.guarded_by(r, fb, la, BQ + "::_queue", BQ + "::_mutex")
    # The lockset analysis (locks.py) gives a function the locks of its call sites, a cv predicate those of its wait.  It has no entry
    # state for code that is HANDED a held lock or is run by another function of the class on the caller's behalf: a function (or a
    # lambda nested in one) with a lock-object reference parameter (`awaitSpace(std::unique_lock<std::mutex>& lock)`), and a lambda
    # passed as an argument to a function of the class that invokes it under its own lock (`enqueue(item, [this](Lock&) { … })`).
    # "Held: nothing" there says the analysis could not see the lock, not that there is none: such a report is a refusal.
    def handed_lock(f, depth=0):
        if f is None or depth > 4:
            return None
        if any(("unique_lock" in (p_.get("t") or "") or "lock_guard" in (p_.get("t") or "") or "scoped_lock" in (p_.get("t") or "")) for p_ in f.params):
            return "%s receives a lock object as parameter" % short(f.name)
        if f.kind == "lambda":
            role = cg.lambda_role.get(f.name, {})
            if role.get("role") == "arg" and (role.get("callee") or "").startswith(BQ + "::"):
                return "%s is passed to %s, which decides under which lock it runs" % (short(f.name), short(role["callee"]))
            return handed_lock(f.enclosing, depth + 1)
        return None
    refused = []
    for fl_ in list(r.failures):
        for f in fb.by_name.get(fl_["function"], []):
            why = handed_lock(f)
            if why:
                r.failures.remove(fl_)
                refused.append("%s [%s]: %s" % (short(fl_["function"]), fl_["construct"], why))
                break
    # an access inside an internal helper stands for one access per calling context (the lockset of the helper's entry is the
    # intersection over exactly those call sites, locks.py): count it that way, so that the floor keeps measuring "the rule sees
    # the queue's operations" when duplicated code is folded into a helper
    for (f, e, node, kind) in access.accesses(fb, BQ + "::_queue"):
        if e is not None and not (f.kind in ("ctor", "dtor") and f.cls == BQ):
            k = _contexts(fb, cg, BQ, f)
            if k > 1:
                r.instance(k - 1)
    r.floor(20, "access sites of _queue")
    if refused:
        raise AnalysisBroken("C10-R1: the lockset of code that is handed its lock is not followed — %s" % "; ".join(sorted(set(refused))[:4]))


def _stands_for(f, c, src):
    """the condition operand c is the value node `src` produced: c is src itself, or a bool local that receives src's value — as its
    initialiser or by one plain assignment — and is not written again on any path from there (`const bool was = flag.exchange(true);
    unlock; if (was)` and `bool was = false; { lock; was = flag.exchange(true); } if (was)` both test the exchange's result, wherever
    the test is placed).  Reaching definitions over the CFG; no name is looked at."""
    c = strip_casts(c)
    if c is None or src is None:
        return False
    if c.get("id") is not None and c.get("id") == src.get("id"):
        return True
    if c.get("k") != "var" or c.get("parm") is not None:
        return False
    d = c.get("d")

    def is_d(x):
        x = strip_casts(x) if isinstance(x, dict) else None
        return x is not None and x.get("k") == "var" and x.get("d") == d
    writes = []     # (element, assigned value | None when the write is not a plain assignment)
    for n in f.nodes.values():
        k = n.get("k")
        if k in ("bin", "opcall") and str(n.get("op", "")).endswith("=") and n.get("op") not in ("==", "!=", "<=", ">="):
            lhs, rhs = (n.get("lhs"), n.get("rhs")) if k == "bin" else ((n.get("args") or [None, None]) + [None])[:2]
            if is_d(lhs):
                writes.append((f.elem_for(n), rhs if n.get("op") == "=" else None))
        elif k == "un" and ("++" in n.get("op", "") or "--" in n.get("op", "") or n.get("op") == "&") and is_d(n.get("v")):
            writes.append((f.elem_for(n), None))
        elif k == "decl":
            for v in n["vars"]:
                if v["d"] == d:
                    if v["t"].replace("const ", "").strip() != "bool":
                        return False
                    if isinstance(v.get("init"), dict):
                        writes.append((f.elem_for(n), v["init"]))
    defs = [e for (e, v) in writes if e is not None and isinstance(v, dict) and strip_casts(v).get("id") is not None and strip_casts(v).get("id") == src.get("id")]
    if len(defs) != 1 or any(e is None for (e, v) in writes):
        return False
    others = [e for (e, v) in writes if e is not defs[0]]
    return search(f, defs[0], lambda x: any(x is o for o in others), eh=False) is None


def _enclosing_loop_cond(f, e):
    """the operand nodes of the condition of the innermost loop around element e whose condition is evaluated again after e (the
    block of e reaches the loop's branch and the loop's body edge reaches the block of e); None if e is not in such a loop.  A
    short-circuit condition is branched on operand by operand: the operands are the conditions of the `&&`/`||`-terminated blocks
    that lead straight into the loop's branch block."""
    def reach(src):
        seen, work = set(), [src]
        while work:
            b = work.pop()
            if b is None or b in seen:
                continue
            seen.add(b)
            work.extend(x for x in f.blocks[b].succs if x is not None)
        return seen
    frm = reach(e.block.id)
    best = None
    for b in f.blocks.values():
        t = b.term
        if not t or t.get("k") not in ("WhileStmt", "DoStmt", "ForStmt") or "cond" not in t or len(b.succs) != 2 or b.succs[0] is None:
            continue
        body = reach(b.succs[0])
        if b.id in frm and e.block.id in body:
            if best is None or len(body) < best[0]:
                best = (len(body), b)
    if not best:
        return None
    chain, grew = {best[1].id}, True
    while grew:
        grew = False
        for x in f.blocks.values():
            if x.id not in chain and x.term and x.term.get("k") == "BinaryOperator" and "cond" in x.term and any(y in chain for y in x.succs if y is not None):
                chain.add(x.id)
                grew = True
    return [n for n in (f.nodes.get(f.blocks[i].term["cond"]) for i in chain) if n is not None]


def _cv_pred_helpers(r, fb, la):
    """common.cv_discipline reads the variables of a wait predicate off the lambda's own body and skips a wait that has none.
    Two spellings of the same predicate it does not see are discharged here with the same obligation (the variable is written only
    with the wait's mutex held, or the mutex is taken between the write and the notify):
      * a predicate that calls helper(s) of the class (`[this] { return hasSpaceOrClosed(); }`) reads the helpers' variables;
      * `while (!pred) cv.wait(lock);` — the predicate of a wait without one is the condition of the loop that re-tests after it."""
    seen = set()

    def fields(nodes):
        return {n["n"] for n in nodes if n.get("k") == "member" and "t" in n and not n.get("t", "").startswith(("std::mutex", "std::condition_variable"))}
    for w in common.cv_waits(fb, lambda f: f.file.endswith(BQ_FILE)):
        f, e, P = w["f"], w["e"], w["pred"]
        if (f.file, e.line) in seen:
            continue
        seen.add((f.file, e.line))
        extra = set()
        if P is not None:
            how = "through a helper by the predicate of the wait"
            for g in _transitive_helpers(fb, BQ, P).values():
                if g is not P:
                    extra |= fields(g.nodes.values())
            extra -= fields(P.nodes.values())
        elif not w["has_pred"]:
            how = "by the loop condition around the predicate-less wait"
            lc = _enclosing_loop_cond(f, e)
            if lc is None:
                continue        # no re-testing loop in this function: the caller's business (common notes it)
            operands = [x for c in lc for x in walk(c)]
            extra = fields(operands)
            for x in operands:
                for g0 in _helper_fns(fb, BQ, x):
                    for g in _transitive_helpers(fb, BQ, g0).values():
                        extra |= fields(g.nodes.values())
        if not extra:
            continue
        lv = w["lockvar"]
        fl = la.fn(f)
        ms = fl.lockvars[lv["d"]][0] if lv is not None and lv.get("k") == "var" and lv.get("d") in fl.lockvars else None
        if not ms:
            raise AnalysisBroken("cannot identify the mutex of the wait at %s" % f.loc(e))
        mtx, cvf = ms[0], w["cv"]
        for fld in sorted(extra):
            for (g, ge, gn, kind) in access.accesses(fb, fld):
                if kind not in ("write", "rw") or ge is None or g.kind == "ctor":
                    continue
                r.instance()
                if la.holds(g, ge, mtx):
                    r.ok("%s writes %s under %s (read %s in %s)" % (short(g.name), last(fld), last(mtx), how, short(f.name)))
                    continue

                def is_notify(x):
                    return x.kind == "stmt" and x.node.get("k") == "mcall" and last(x.node.get("callee", "")) in ("notify_one", "notify_all") and field_of(x.node.get("obj")) == cvf

                def takes_mutex(x):
                    if x.kind != "stmt":
                        return False
                    n2 = x.node
                    if n2.get("k") == "decl":
                        return any(v["d"] in la.fn(g).lockvars and mtx in la.fn(g).lockvars[v["d"]][0] and not la.fn(g).lockvars[v["d"]][2] for v in n2["vars"])
                    return n2.get("k") == "mcall" and n2.get("callee") == "std::mutex::lock" and field_of(n2.get("obj")) == mtx
                wit = search(g, ge, is_notify, stop=takes_mutex)
                if wit is None or w["timed"]:
                    r.ok("%s writes %s outside the lock; %s" % (short(g.name), last(fld), "the waiter is timed (bounded delay)" if wit is not None else "takes %s before notifying" % last(mtx)))
                    continue
                r.fail(g, ge, "write %s then notify %s" % (last(fld), last(cvf or "?")),
                       "lost wake-up: %s is read (%s) at %s under %s — an untimed wait — but is written here "
                       "without that mutex and the notify follows with the mutex never taken in between" % (fld, how, f.loc(e), mtx), witness_str(g, wit))


def r2(ctx, r):
    fb = ctx.fb()
    la = ctx.locks()
    cg = ctx.cg()
    n = common.cv_discipline(r, fb, la, lambda f: f.file.endswith(BQ_FILE))
    if n < 6:
        raise AnalysisBroken("C10-R2: %d condition-variable waits found in blocking_queue.hpp, expected >= 6" % n)
    _cv_pred_helpers(r, fb, la)
    # every state change that can make a predicate true is followed by the matching notify — in the same function, in a helper
    # every path of which notifies, or (when the change itself sits in a private helper) behind each call of that helper
    pairs = {"push_back": "_condNotEmpty", "emplace_back": "_condNotEmpty", "pop_front": "_condNotFull"}
    for f in _bq_methods(fb):
        for e in f.stmts():
            m = _queue_call(e.node, pairs)
            if not m:
                continue
            r.instance(_contexts(fb, cg, BQ, f))
            cvf = BQ + "::" + pairs[m]

            def is_notify(x, cvf=cvf):
                return x.kind == "stmt" and x.node.get("k") == "mcall" and last(x.node.get("callee", "")) in ("notify_one", "notify_all") \
                    and field_of(x.node.get("obj")) == cvf
            w = _escapes(fb, cg, BQ, f, e, _does(fb, BQ, is_notify))
            r.expect(w is None, f, e, "%s without notify %s" % (m, pairs[m]),
                     "a path from _queue.%s() to the function exit does not notify %s: a waiter whose condition became true is not woken" % (m, pairs[m]),
                     okdesc="%s: %s is followed by notify on %s on every path" % (short(f.name), m, pairs[m]),
                     witness=w or "")
    # close(): sets the flag and notifies both CVs on every path where the flag was flipped
    close = fb.func(BQ + "::close")

    def flips_in(g):
        return [e for e in g.stmts() if e.node.get("k") == "mcall" and field_of(e.node.get("obj")) == BQ + "::_closed"
                and last(e.node.get("callee", "")) in ("exchange", "store")] + \
               [e for e in g.stmts() if e.node.get("k") in ("opcall", "bin") and e.node.get("op") == "=" and
                field_of((e.node.get("args") or [e.node.get("lhs")])[0]) == BQ + "::_closed"]
    flips = flips_in(close)
    if not flips:
        if any(flips_in(g) for g in _transitive_helpers(fb, BQ, close).values()):
            raise AnalysisBroken("close() sets _closed inside a helper: the flag-flip → notify_all path is not followed across that call")
        r.fail(close, None, "close sets _closed", "close() no longer sets the closed flag")
    for e in flips:
        for cv in ("_condNotEmpty", "_condNotFull"):
            r.instance()

            def is_notify_all(x, cv=cv):
                return x.kind == "stmt" and x.node.get("k") == "mcall" and last(x.node.get("callee", "")) == "notify_all" \
                    and field_of(x.node.get("obj")) == BQ + "::" + cv
            # the "already closed" early return is the only path allowed to skip the notify: it is the edge on which the flip's
            # own result (the previous value of the flag) is true — tested directly (`if (_closed.exchange(true))`) or through
            # a bool local that holds nothing but that result when the test is reached (_stands_for);
            # which edge that is follows from the condition's polarity (common.branch removes the `!`s)
            def edge_ok(b, si, e=e):
                c, st, sf = common.branch(b)
                if c is None:
                    return True
                if _stands_for(close, c, e.node) and b.succs[si] == st and st != sf:
                    return False   # exchange returned true: was already closed, somebody else notified
                return True
            w = search(close, e, "exit", stop=_does(fb, BQ, is_notify_all), edge_ok=edge_ok, eh=False)
            r.expect(w is None, close, e, "close without notify_all %s" % cv,
                     "close() can return after flipping the flag without notify_all on %s: blocked callers are not woken" % cv,
                     okdesc="close(): flag flip is followed by notify_all on %s" % cv, witness=witness_str(close, w))
    # close() never removes items (neither itself nor through a helper it calls)
    for g in _transitive_helpers(fb, BQ, close).values():
        for e in g.stmts():
            m = _queue_call(e.node)
            if m in access.MUTATORS:
                r.fail(close, e if g is close else None, "close mutates _queue", "close() calls _queue.%s()%s: items put before close must stay retrievable" % (m, "" if g is close else " (in %s)" % short(g.name)))


# ------------------------------------------------------------------ R3 (predicate abstraction)

def _mk_leaf(boolvars, fb=None, waitpred=None):
    def leaf(n):
        k = n.get("k")
        # a timed predicate wait used as a condition (`if (!cv.wait_for(lock, t, pred)) return false;`): it returns what pred() is
        # when it returns, evaluated under the lock — the branch on its result is a branch on the predicate
        if waitpred is not None and k == "mcall" and n.get("callee", "").startswith("std::condition_variable") and last(n["callee"]) in ("wait_for", "wait_until") \
                and len([a for a in n["args"] if not a.get("def")]) >= 3:
            return waitpred(n)
        # a call to an expression helper of the queue (`hasSpace()`, `isClosed()`, `hasSpaceOrClosed()`) is the helper's expression
        if fb is not None and k in ("call", "mcall"):
            h = _expr_helper(fb, BQ, n)
            if h is not None:
                return translate(_inline(fb, BQ, n), leaf)
        # _closed / _closed.load(...)
        if k == "mcall" and field_of(n.get("obj")) == BQ + "::_closed" and (last(n["callee"]) == "load" or last(n["callee"]).startswith("operator")):
            return A("closed")
        if k == "member" and n.get("n") == BQ + "::_closed":
            return A("closed")
        if k == "mcall" and _queue_call(n, ("empty",)):
            return Not(A("nonempty"))
        if k == "bin" and n["op"] in ("<", ">", "<=", ">=", "==", "!="):
            l, rr = strip_casts(n["lhs"]), strip_casts(n["rhs"])
            lsz = l.get("k") == "mcall" and _queue_call(l, ("size",))
            rsz = rr.get("k") == "mcall" and _queue_call(rr, ("size",))
            lmax = field_of(l) == BQ + "::_maxSize" if l.get("k") == "member" else False
            rmax = field_of(rr) == BQ + "::_maxSize" if rr.get("k") == "member" else False
            op = n["op"]
            if lsz and rmax:
                if op == "<":
                    return A("notfull")
                if op in (">=", "=="):
                    return Not(A("notfull"))
                return None
            if lmax and rsz:
                if op == ">":
                    return A("notfull")
                if op in ("<=", "=="):
                    return Not(A("notfull"))
                return None
            z = const_value(rr)
            if lsz and z == 0:
                if op in (">", "!="):
                    return A("nonempty")
                if op in ("==", "<="):
                    return Not(A("nonempty"))
            return None
        if k == "var" and ("v:" + n["n"]) in boolvars:
            return A("v:" + n["n"])
        return None
    return leaf


def r3(ctx, r):
    fb = ctx.fb()
    la = ctx.locks()
    cg = ctx.cg()
    shared = ["notfull", "closed", "nonempty"]
    methods = [f for f in _bq_methods(fb) if f.kind != "lambda"]
    _imp = {}

    def impure(g):
        """g (or a helper it calls) changes what the atoms speak about: it mutates the queue, takes/releases a lock, waits or
        writes the closed flag.  After a call to such a helper nothing is known in the caller."""
        if g.sig not in _imp:
            _imp[g.sig] = False
            for h in _transitive_helpers(fb, BQ, g).values():
                for e in h.stmts():
                    n = e.node
                    k = n.get("k")
                    if (k == "decl" and any(v["t"].startswith(("std::unique_lock", "std::lock_guard", "std::scoped_lock")) for v in n["vars"])) \
                            or (k == "mcall" and ((n.get("callee", "").startswith("std::condition_variable") and last(n["callee"]) in common.CV_WAIT)
                                                  or (n.get("callee", "").startswith(("std::unique_lock", "std::mutex")) and last(n["callee"]) in ("lock", "unlock", "release", "try_lock"))
                                                  or _queue_call(n) in access.MUTATORS
                                                  or (field_of(n.get("obj")) == BQ + "::_closed" and last(n.get("callee", "")) in access.MUTATORS))) \
                            or (k in ("bin", "opcall") and n.get("op") == "=" and field_of((n.get("args") or [n.get("lhs")])[0]) == BQ + "::_closed"):
                        _imp[g.sig] = True
        return _imp[g.sig]

    def impure_call(x):
        if x.kind != "stmt":
            return False
        gs = _helper_fns(fb, BQ, x.node)
        if gs:
            return any(impure(g) for g in gs)
        # a call this rule cannot look into that may wait or change the queue on this function's behalf: it is handed the lock object
        # (`spaceReady(lock)`), or it invokes a callable that is a parameter of the function (a policy passed in by the caller)
        n = x.node
        if n.get("k") in ("call", "mcall", "opcall") and not (n.get("callee") or "").startswith("std::"):
            args = [strip_wrappers(a) for a in n.get("args", []) if isinstance(a, dict)]
            if any(a is not None and a.get("k") == "var" and (a.get("t") or "").replace("const ", "").startswith(("std::unique_lock", "std::lock_guard", "std::scoped_lock")) for a in args):
                return True
            if n.get("k") == "opcall" and n.get("op") == "()" and args and args[0] is not None and args[0].get("k") == "var" and args[0].get("parm") is not None:
                return True
        return False
    pas = {}
    building = set()

    def build(f):
        """the abstraction of f; for an internal helper the entry state is the union, over its call sites, of what the caller
        knows there about the shared atoms (a helper that pushes is as guarded as its callers make it)"""
        if f.sig in pas:
            return pas[f.sig]
        if f.sig in building:
            raise AnalysisBroken("C10-R3: recursive helper %s" % short(f.name))
        building.add(f.sig)
        init = T
        sites = cg.callers.get(f.name, [])
        if _is_internal(fb, cg, BQ, f) and all(g.kind == "method" and g.cls == BQ for (g, ce, n) in sites):
            feas = set()
            for (g, ce, n) in sites:
                if not g.ok:
                    continue
                pg = build(g)
                st = pg.flow.before(ce)
                if st is None:
                    continue
                for a in range(pg.v.size):
                    if st >> a & 1:
                        feas.add(a & ((1 << len(shared)) - 1))     # the shared atoms are the first of every vocabulary
            init = Or(*[And(*[A(x) if a >> i & 1 else Not(A(x)) for i, x in enumerate(shared)]) for a in sorted(feas)])
        # boolean locals (e.g. initialised from a timed wait)
        boolvars = set()
        for e in f.stmts():
            if e.node.get("k") == "decl":
                for v in e.node["vars"]:
                    if v["t"].replace("const ", "").strip() == "bool":
                        boolvars.add("v:" + v["n"])
        vocab = Vocab(shared + sorted(boolvars))
        leaf = _mk_leaf(boolvars, fb, waitpred=lambda n: pred_formula(n))

        def pred_formula(call):
            args = [a for a in call["args"] if not a.get("def")]
            P = common._resolve_pred(fb, f, args[-1]) if args else None
            if P is None:
                raise AnalysisBroken("C10-R3: cannot resolve the predicate of the wait at %s" % f.loc(call))
            rets = [x.node for x in P.stmts() if x.node.get("k") == "ret"]
            if len(rets) != 1:
                return None
            return translate(rets[0].get("v"), leaf)

        def effects(e, f=f):
            if e.kind != "stmt":
                return None
            n = e.node
            k = n.get("k")
            if impure_call(e):
                return [("havoc_all", shared)]
            if k == "decl":
                ops = []
                if any(v["t"].startswith(("std::unique_lock", "std::lock_guard", "std::scoped_lock")) for v in n["vars"]):
                    # whatever was read before the lock was taken may be stale once it is held: close() can run in between
                    ops.append(("havoc_all", shared))
                for v in n["vars"]:
                    i = strip_wrappers(v.get("init")) if v.get("init") else None
                    if i is not None and i.get("k") == "mcall" and last(i.get("callee", "")) in ("wait_for", "wait_until"):
                        fm = pred_formula(i) if len([a for a in i["args"] if not a.get("def")]) >= 3 else None
                        ops.append(("havoc_all", shared))
                        tf = total(fm)
                        if ("v:" + v["n"]) in boolvars:
                            if tf is not None:
                                ops.append(("assign", "v:" + v["n"], tf))
                            else:
                                ops.append(("havoc", "v:" + v["n"]))
                return ops
            if k == "mcall":
                c = last(n.get("callee", ""))
                if n.get("callee", "").startswith("std::condition_variable"):
                    if c == "wait":
                        # only a root-level wait is modelled here (decl-initialisers are handled above)
                        fm = pred_formula(n) if len([a for a in n["args"] if not a.get("def")]) >= 2 else None
                        return [("havoc_all", shared), ("assume", known_when(fm, True))]
                    if c in ("wait_for", "wait_until"):
                        pe = f.parent.get(n["id"])
                        if pe is not None and f.nodes[pe].get("k") == "decl":
                            return None
                        return [("havoc_all", shared)]
                if c in ("unlock",) and n.get("callee", "").startswith("std::unique_lock"):
                    return [("havoc_all", shared)]
                m = _queue_call(n)
                if m in ("push_back", "emplace_back", "push_front", "emplace_front", "insert", "emplace"):
                    return [("havoc", "notfull"), ("set", "nonempty", True)]
                if m in ("pop_front", "pop_back", "erase", "clear"):
                    return [("havoc", "nonempty")]
            return None
        pa = PredAbs(f, vocab, leaf, effects, init=init)
        building.discard(f.sig)
        pas[f.sig] = pa
        return pa

    def unguarded(f, e, construct, msg, need):
        """a site whose guard is not established on every path.  If a helper that waits / locks / changes the queue runs on a
        path to the site — in this function or, for an internal helper, in a caller on the way to the call — the guard may be
        established in there (`if (!waitForSpace(lock)) return false; push`): this rule keeps no summary of what such a helper
        returns knowing, so that shape is refused, not reported.  For a site inside an internal helper the callers that reach
        it without the guard are named."""
        def refuse_if_hidden(g, at, depth=0):
            for x in g.stmts():
                if impure_call(x) and search(g, x, lambda y: y is at, eh=False) is not None:
                    raise AnalysisBroken("C10-R3: %s [%s]: the helper call `%s` in %s on a path to this site may establish the guard; what such a helper returns knowing is not summarised by this rule"
                                         % (short(f.name), construct, show(x.node)[:60], short(g.name)))
            if depth < 4 and _is_internal(fb, cg, BQ, g):
                for (h, ce, n) in cg.callers.get(g.name, []):
                    if h.ok and h.kind != "lambda":
                        refuse_if_hidden(h, ce, depth + 1)
        refuse_if_hidden(f, e)
        via = []
        if _is_internal(fb, cg, BQ, f):
            for (g, ce, n) in cg.callers.get(f.name, []):
                if g.ok and g.kind == "method" and g.cls == BQ and not build(g).entails(ce, need):
                    via.append("%s (line %d, knows: %s)" % (g.sig.split("::")[-1], ce.line, ", ".join(build(g).describe(ce)) or "nothing"))
        r.fail(f, e, construct, msg + ("; reached without the guard from " + "; ".join(sorted(set(via))) if via else ""))

    def dominated_by(f, e, pred, depth=0):
        """an element doing `pred` is executed before e on every path — in f, or (internal helper) before every call of f"""
        does = _does(fb, BQ, pred)
        if any(does(x) and elem_dominates(f, x, e) for x in f.stmts()):
            return True
        if depth < 4 and _is_internal(fb, cg, BQ, f):
            sites = [(g, ce) for (g, ce, n) in cg.callers.get(f.name, []) if g.ok]
            return bool(sites) and all(g.kind != "lambda" and dominated_by(g, ce, pred, depth + 1) for (g, ce) in sites)
        return False

    def is_pop(x):
        return x.kind == "stmt" and _queue_call(x.node, ("pop_front",)) is not None

    def is_front(x):
        return x.kind == "stmt" and _queue_call(x.node, ("front",)) is not None

    def releases(x):
        """the lock is (or may be) released here: unlock, a wait, or a helper that does either"""
        if x.kind != "stmt":
            return False
        n = x.node
        if n.get("k") == "mcall" and (n.get("callee") == "std::unique_lock::unlock" or (n.get("callee", "").startswith("std::condition_variable") and last(n["callee"]) in common.CV_WAIT)):
            return True
        return any(releases(y) for g in _helper_fns(fb, BQ, n) for h in _transitive_helpers(fb, BQ, g).values() for y in h.stmts() if not _helper_fns(fb, BQ, y.node))
    for f in methods:
        pa = build(f)
        k = _contexts(fb, cg, BQ, f)
        for e in f.stmts():
            m = _queue_call(e.node)
            if not m:
                continue
            if m in ("push_back", "emplace_back"):
                r.instance(k)
                if pa.entails(e, And(A("notfull"), Not(A("closed")))) and la.holds(f, e, BQ + "::_mutex"):
                    r.ok("%s: push_back only when size<max and !closed (%s)" % (f.sig.split("::")[-1], ",".join(pa.describe(e))))
                else:
                    unguarded(f, e, "push_back unguarded",
                              "on some path to this insertion the queue is not known to be below capacity and open "
                              "(known here: %s) — the capacity bound or the closed contract can be violated" % (", ".join(pa.describe(e)) or "nothing"), And(A("notfull"), Not(A("closed"))))
            elif m in ("push_front", "emplace_front", "insert", "emplace"):
                r.instance()
                r.fail(f, e, "insert not at back", "_queue.%s(): items must be inserted at the back only (FIFO end discipline)" % m)
            elif m in ("front", "pop_front"):
                r.instance(k)
                if pa.entails(e, A("nonempty")) and la.holds(f, e, BQ + "::_mutex"):
                    r.ok("%s: %s only when non-empty" % (f.sig.split("::")[-1], m))
                else:
                    unguarded(f, e, "%s unguarded" % m,
                              "_queue.%s() reachable with the queue not known to be non-empty (known: %s)" % (m, ", ".join(pa.describe(e)) or "nothing"), A("nonempty"))
            elif m in ("pop_back", "erase", "clear", "back", "resize", "swap", "assign"):
                r.instance()
                r.fail(f, e, "removal not at front", "_queue.%s(): items leave the queue only through front()+pop_front() (lossless FIFO)" % m)
        # each item is taken exactly once: front() is read then popped in the same critical section (the pop may sit in a helper,
        # or — when front() itself sits in a helper — behind the helper's call sites)
        for e in f.stmts():
            if is_front(e):
                r.instance(k)
                w = _escapes(fb, cg, BQ, f, e, _does(fb, BQ, is_pop), also_goal=releases)
                r.expect(w is None, f, e, "front without pop",
                         "the item read by front() is not removed by pop_front() before the lock is released / the function returns: "
                         "it could be delivered twice", okdesc="%s: front() then pop_front() in one critical section" % f.sig.split("::")[-1],
                         witness=w or "")
            if is_pop(e):
                r.instance(k)
                r.expect(dominated_by(f, e, is_front), f, e, "pop without front", "pop_front() discards an item that was not read by a dominating front(): an item is lost",
                         okdesc="pop_front dominated by front()")
    r.floor(14, "push/front/pop sites")


# ------------------------------------------------------------------ R4/R5 (SPSC ring buffers)

def _atomic_ops(f, cls, fb=None):
    """[(elem, field, 'load'|'store'|'rmw', order-name)] for _head/_tail — written out in f, or made through an expression helper of
    the class (`loadTail()` = `return _tail.load(acquire);`): the operation then happens at the call, with the helper's order"""
    out = []

    def order_of(n):
        for a in n["args"]:
            if a.get("k") == "enum" and a["n"].startswith("std::memory_order"):
                return a["n"]
            if a.get("k") == "cast" and a.get("v", {}).get("k") == "enum":
                return a["v"]["n"]
        return "std::memory_order_seq_cst"

    def op_of(n):
        if n.get("k") == "mcall":
            fld = field_of(n.get("obj"))
            if fld in (cls + "::_head", cls + "::_tail"):
                m = last(n.get("callee", ""))
                kind = {"load": "load", "store": "store"}.get(m, "load" if m.startswith("operator") and not m.endswith("=") else "rmw")
                return (last(fld), kind, order_of(n))
        elif n.get("k") == "opcall" and n.get("memberop") and n["args"]:
            fld = field_of(n["args"][0])
            if fld in (cls + "::_head", cls + "::_tail"):
                return (last(fld), "store" if n["op"] == "=" else "rmw", "std::memory_order_seq_cst")
        return None
    for e in f.stmts():
        n = e.node
        o = op_of(n)
        if o is not None:
            out.append((e,) + o)
        elif fb is not None and n.get("k") in ("call", "mcall") and _expr_helper(fb, cls, n) is not None:
            for x in walk(_inline(fb, cls, n)):
                o = op_of(x)
                if o is not None:
                    out.append((e,) + o)
    return out


def _is_slot_expr(cls, x):
    x = strip_casts(x)
    if x is None:
        return False
    if x.get("k") == "idx":
        return field_of(x.get("b")) == cls + "::_buffer"
    return x.get("k") == "opcall" and x.get("op") == "[]" and bool(x.get("args")) and field_of(x["args"][0]) == cls + "::_buffer"


def _buffer_accesses(f, cls, fb=None):
    """[(element, slot expression, 'read'|'write'|'rw')]: every `_buffer[...]` of f — written out, or obtained through an
    expression helper of the class that returns the slot (`T& slot(pos) { return _buffer[pos & mask]; }`): then the call is the
    access, its use in the caller says read or write, and the slot expression is the helper's with the arguments put in"""
    res = []
    for n in f.nodes.values():
        if n.get("k") == "member" and n.get("n") == cls + "::_buffer":
            # the element expression is the parent idx / operator[]
            pid = f.parent.get(n["id"])
            p = f.nodes.get(pid) if pid is not None else None
            while p is not None and p.get("k") in ("cast",):
                pid = f.parent.get(p["id"])
                p = f.nodes.get(pid) if pid is not None else None
            if p is not None and (p.get("k") == "idx" or (p.get("k") == "opcall" and p.get("op") == "[]")):
                kind = access.classify(f, p)
                res.append((f.elem_for(p), p, kind))
        elif fb is not None and n.get("k") in ("call", "mcall") and n.get("id") is not None and _expr_helper(fb, cls, n) is not None:
            x = _inline(fb, cls, n)
            if _is_slot_expr(cls, x) and f.elem_for(n) is not None:
                res.append((f.elem_for(n), strip_casts(x), access.classify(f, n)))
    # raw storage pointer (`T* slots = _buffer.data();` / `.get()` / `&_buffer[i]`) handed to a range algorithm (`std::copy_n(items, n,
    # slots + off)`): the call touches slots — which ones is not evaluated, so it carries the publication-order obligation only (kind 'raw')
    raw_vars, raw_nodes = set(), []
    for n in f.nodes.values():
        if n.get("k") == "member" and n.get("n") == cls + "::_buffer":
            pid = f.parent.get(n["id"])
            p = f.nodes.get(pid) if pid is not None else None
            if p is not None and p.get("k") == "mcall" and p.get("obj") is n and last(p.get("callee", "")) in ("data", "get", "begin", "end"):
                raw_nodes.append(p)
            elif p is not None and (p.get("k") == "idx" or (p.get("k") == "opcall" and p.get("op") == "[]")):
                gp = f.nodes.get(f.parent.get(p["id"])) if f.parent.get(p["id"]) is not None else None
                if gp is not None and gp.get("k") == "un" and gp.get("op") == "&":
                    raw_nodes.append(gp)
    for e in f.stmts():
        if e.node.get("k") == "decl":
            for v in e.node["vars"]:
                if isinstance(v.get("init"), dict) and any(any(x is rn for rn in raw_nodes) for x in walk(v["init"])):
                    raw_vars.add(v["d"])
    if raw_nodes:
        for e in f.stmts():
            n = e.node
            if n.get("k") == "call" and "root" in e.raw and any((x.get("k") == "var" and x.get("d") in raw_vars) or any(x is rn for rn in raw_nodes) for a in n.get("args", []) for x in walk(a)):
                res.append((e, n, "raw"))
    return res


# ---- cached copies of the other side's index (the classic SPSC optimisation: re-load the other index only when the cached value
# says full/empty).  Nothing here knows a field name: a cache is a plain (non-atomic) member that some operation assigns from a
# load of _head / _tail.

_CACHES = {}     # class -> {field qname: '_head' | '_tail'}, 'fb' -> the fact base; set by r4_r5 for the run in progress


def _find_index_caches(fb, cls, ms):
    out = {}
    for f in ms:
        for n in f.nodes.values():
            if n.get("k") != "member" or not n.get("n", "").startswith(cls + "::") or n.get("t", "").startswith(("std::atomic", "std::unique_ptr", "std::array")):
                continue
            if access.classify(f, n) not in ("write", "rw"):
                continue
            v = common.assigned_value(f, n)
            for x in ("_head", "_tail"):
                if v is not None and _is_index_load(f, cls, v, x, direct=True):
                    if out.get(n["n"], x) != x:
                        raise AnalysisBroken("%s is assigned from loads of both indices: not a form this rule classifies" % short(n["n"]))
                    out[n["n"]] = x
    return out


def _cache_discipline(r5, fb, cls, ms, role_of, caches):
    """A cached copy F of the other side's index X stands in for X in the full/empty test (accepted by _is_index_load).  That is
    sound exactly while  own index <= F <= X  (head cache; mirrored for a tail cache), which the operations keep only if
      (1) F is touched by one side only — it is a plain member: the side that tests it (consumer for a cache of _head);
      (2) that side writes nothing into F but a load of X (its order is R4's business);
      (3) every OTHER function that stores an index — the quiescent operations, which renumber the positions (clear: both := 0,
          resize: tail := 0, head := items kept) — also re-establishes F, with the value it stores to X (exact) or to the own index
          (cache empty ⇒ next test re-loads).  A function that renumbers and leaves F alone makes the side that owns F trust a head
          that no longer exists."""
    for F, X in sorted(caches.items()):
        side = "consumer" if X == "_head" else "producer"
        own = "_tail" if X == "_head" else "_head"
        users = sorted({last(f.name) for f in ms if role_of.get(f.sig) == side and any(n.get("k") == "member" and n.get("n") == F for n in f.nodes.values())})
        for f in ms:
            accs = [n for n in f.nodes.values() if n.get("k") == "member" and n.get("n") == F]
            ops = _atomic_ops(f, cls)
            idx_stores = [(e, fld) for (e, fld, k, _) in ops if k in ("store", "rmw")]
            role = role_of.get(f.sig)
            if f.kind == "ctor":
                continue
            if role is not None:
                if not accs:
                    continue
                r5.instance()
                # (1)
                if not r5.expect(role == side, f, f.elem_for(accs[0]), "index cache used on the wrong side",
                                 "%s is a plain member holding the %s side's cached copy of %s (%s), but %s::%s — a %s-side operation — accesses it: the two sides run "
                                 "concurrently, this is a data race and the cached bound means nothing here" % (last(F), side, X, ", ".join(users) or "-", last(cls), last(f.name), role),
                                 okdesc="%s::%s (%s) uses its side's cached copy %s of %s" % (last(cls), last(f.name), role, last(F), X)):
                    continue
                # (2)
                for (e, n, k) in common.field_writes(f, F):
                    v = common.assigned_value(f, n)
                    if k != "write" or v is None or not _is_index_load(f, cls, v, X, direct=True):
                        raise AnalysisBroken("%s::%s writes the index cache %s with `%s`, which is not a load of %s: not a form this rule evaluates" % (last(cls), last(f.name), last(F), show(v)[:40] if v else "?", X))
                continue
            # (3) not a producer/consumer operation
            if not idx_stores:
                if any(access.classify(f, n) in ("write", "rw") for n in accs):
                    raise AnalysisBroken("%s::%s writes the index cache %s but is neither a producer/consumer operation nor one that stores an index" % (last(cls), last(f.name), last(F)))
                continue
            r5.instance()
            writes = [(e, n) for (e, n, k) in common.field_writes(f, F)]
            stored = {}
            for (e, fld) in idx_stores:
                a = e.node.get("args") or []
                val = a[1] if e.node.get("k") == "opcall" and len(a) > 1 else (a[0] if a else None)
                stored.setdefault(fld, []).append(show(strip_casts(val)) if val is not None else "?")
            what = " and ".join("%s := %s" % (k, "/".join(v)) for k, v in sorted(stored.items()))
            # a path entry → index store → exit on which F is never written
            def is_refresh(x, writes=writes):
                return any(x is we for (we, _) in writes)
            wit = None
            for (se, _fld) in idx_stores:
                if search(f, ("entry",), lambda x, se=se: x is se, stop=is_refresh, eh=False) is not None:
                    wit = wit or search(f, se, "exit", stop=is_refresh, eh=False)
            if wit is not None and any(g is not f and common.field_writes(g, F) for g in _transitive_helpers(fb, cls, f).values()):
                raise AnalysisBroken("%s::%s re-establishes the index cache %s inside a helper: not followed by C10-R5" % (last(cls), last(f.name), last(F)))
            if not r5.expect(wit is None, f, idx_stores[-1][0], "index cache not refreshed",
                             "%s::%s() renumbers the positions (%s) but leaves %s unchanged — the %s-side cached copy of %s, which %s compare%s with the %s position instead "
                             "of re-loading %s.  After this call the %s still trusts the old %s: %s" % (
                                 last(cls), last(f.name), what, last(F), side, X, ", ".join(users) or "the %s operations" % side, "s" if len(users) == 1 else "", side, X, side, X[1:],
                                 "it takes slots that were never put (or were already taken) and its index overtakes the producer's — items delivered twice / out of thin air, size() wraps" if X == "_head"
                                 else "it refuses pushes although there is room, or overwrites items that were not taken yet"),
                             okdesc="%s::%s re-establishes the index cache %s when it renumbers the positions" % (last(cls), last(f.name), last(F)),
                             witness=witness_str(f, wit)):
                continue
            for (e, n) in writes:
                v = common.assigned_value(f, n)
                sv = show(strip_casts(v)) if v is not None else None
                if not (sv is not None and (sv in stored.get(X, []) or sv in stored.get(own, []) or _is_index_load(f, cls, v, X, direct=True))):
                    raise AnalysisBroken("%s::%s sets the index cache %s to `%s`, which is neither the value it stores to %s nor to %s: not a form this rule evaluates" % (last(cls), last(f.name), last(F), sv, X, own))


QUIESCENT = {"size": "documented: approximate, not for synchronisation", "empty": "via size()", "full": "via size()",
             "clear": "documented: requires SPSC quiescence", "resize": "documented: NOT thread-safe, requires quiescence",
             "capacity": "constant"}


def r4_r5(ctx, r4, r5):
    fb = ctx.fb()
    _CACHES["fb"] = fb
    roles = 0
    for cls in RB_CLASSES:
        ms = [f for f in fb.functions if f.ok and f.cls == cls and f.kind == "method" and f.file.endswith(RB_FILE)]
        if len(ms) < 8:
            raise AnalysisBroken("%s: %d method bodies found" % (cls, len(ms)))
        _CACHES[cls] = {}
        _CACHES[cls] = _find_index_caches(fb, cls, ms)
        role_of = {}
        for f in ms:
            ops = _atomic_ops(f, cls, fb)
            bufs = _buffer_accesses(f, cls, fb)
            stores = {fld for (_, fld, k, _) in ops if k in ("store", "rmw")}
            name = last(f.name)
            if name in QUIESCENT and not (bufs and name not in ("resize",)):
                if ops:
                    r4.note("%s::%s exempt — %s" % (last(cls), name, QUIESCENT[name]))
                continue
            writes_buf = any(k in ("write", "rw") for (_, _, k) in bufs)
            reads_buf = any(k == "read" for (_, _, k) in bufs)
            if not ops:
                continue
            role = None
            if stores == {"_head"} or (writes_buf and not stores):
                role = "producer"
            elif stores == {"_tail"} or (reads_buf and not stores):
                role = "consumer"
            elif stores == {"_head", "_tail"}:
                r4.fail(f, None, "stores both indices", "%s stores both _head and _tail but is not one of the documented quiescent operations" % f.sig)
                continue
            if role is None:
                continue
            roles += 1
            role_of[f.sig] = role
            mine, other = ("_head", "_tail") if role == "producer" else ("_tail", "_head")
            for (e, fld, kind, order) in ops:
                r4.instance()
                if kind == "load" and fld == other:
                    r4.expect(order in ACQ, f, e, "load %s %s" % (fld, last(order).replace("memory_order_", "")),
                              "%s side loads the other side's index %s with %s: the %s's access to the slot does not happen-before this side's "
                              "re-use of it (data race under the C++ memory model; needs acquire)" % (
                                  role, fld, last(order), "consumer" if role == "producer" else "producer"),
                              okdesc="%s::%s (%s) loads %s with %s" % (last(cls), name, role, fld, last(order)))
                elif kind in ("store", "rmw") and fld == mine:
                    r4.expect(order in REL, f, e, "store %s %s" % (fld, last(order).replace("memory_order_", "")),
                              "%s side publishes %s with %s: the slot access is not ordered before the publication (needs release)" % (role, fld, last(order)),
                              okdesc="%s::%s (%s) stores %s with %s" % (last(cls), name, role, fld, last(order)))
                else:
                    r4.ok()
            # R5: slot access before publication, bounded by the full/empty test
            pubs = [e for (e, fld, kind, _) in ops if kind in ("store", "rmw") and fld == mine]
            for (be, bn, bk) in bufs:
                r5.instance()
                for pe in pubs:
                    w = search(f, pe, lambda x, be=be: x is be, eh=False)
                    r5.expect(w is None, f, be, "slot access after publish",
                              "a slot access is reachable after the index store that publishes it", witness=witness_str(f, w),
                              okdesc="%s::%s: slot access precedes the %s store" % (last(cls), name, mine))
                if bk == "raw":
                    r5.note("%s::%s: `%s` copies a range through a raw slot pointer — the publication order is checked, the range bound is NOT decided" % (last(cls), name, show(bn)[:60]))
                    continue
                _bound_obligation(r5, f, cls, role, be, bn, fb)
        if _CACHES[cls]:
            _cache_discipline(r5, fb, cls, ms, role_of, _CACHES[cls])
    if roles < 12:
        raise AnalysisBroken("C10-R4: only %d producer/consumer functions classified, expected 12" % roles)


def _local_init(f, var):
    for e in f.stmts():
        if e.node.get("k") == "decl":
            for v in e.node["vars"]:
                if v["d"] == var.get("d"):
                    return strip_wrappers(v.get("init")) if v.get("init") else None
    return None


def _is_index_load(f, cls, n, fld, direct=False):
    """n is a local variable initialised from <fld>.load() (or the load itself) — or, unless direct, this side's cached copy of
    <fld> (a member found by _find_index_caches; what makes it as good as a load is discharged by _cache_discipline)"""
    n = strip_casts(n)
    if n is None:
        return False
    if n.get("k") == "var":
        n = strip_casts(_local_init(f, n))
        if n is None:
            return False
    fb = _CACHES.get("fb")
    if fb is not None and n.get("k") in ("call", "mcall") and _expr_helper(fb, cls, n) is not None:
        n = strip_casts(_inline(fb, cls, n))       # `auto tail = loadTail();`
    if not direct and n.get("k") == "member" and _CACHES.get(cls, {}).get(n.get("n")) == fld:
        return True
    return n.get("k") == "mcall" and field_of(n.get("obj")) == cls + "::" + fld


def _is_capacity(f, cls, n):
    n = strip_casts(n)
    if n is None:
        return False
    if n.get("k") == "member" and n["n"] in (cls + "::_capacity",):
        return True
    if n.get("k") in ("int",) or "cv" in n and n.get("k") not in ("bin",):
        return n.get("cv") is not None and n["cv"] > 0
    if n.get("k") == "gvar" and last(n["n"]) in ("Capacity",):
        return True
    return False


def _is_used(f, cls, n):
    """head - tail (written out, or a local initialised with it)"""
    n = strip_casts(n)
    if n is not None and n.get("k") == "var":
        n = strip_casts(_local_init(f, n))
    return n is not None and n.get("k") == "bin" and n["op"] == "-" and _is_index_load(f, cls, n["lhs"], "_head") and _is_index_load(f, cls, n["rhs"], "_tail")


def _min_of(n):
    """(a, b) if n computes min(a, b)"""
    n = strip_casts(n)
    if n is None:
        return None
    if n.get("k") == "cond":
        c = strip_casts(n["c"])
        if c.get("k") == "bin" and c["op"] in ("<", "<=", ">", ">="):
            a, b = strip_casts(c["lhs"]), strip_casts(c["rhs"])
            t, fl = strip_casts(n["t"]), strip_casts(n["f"])
            same = lambda x, y: show(x) == show(y)
            if c["op"] in ("<", "<=") and same(t, a) and same(fl, b):
                return a, b
            if c["op"] in (">", ">=") and same(t, b) and same(fl, a):
                return a, b
    if n.get("k") == "call" and n.get("callee") == "std::min" and len(n["args"]) >= 2:
        return strip_wrappers(n["args"][0]), strip_wrappers(n["args"][1])
    return None


def _clamped_to(f, var, be):
    """(initial value, b) when the local `var` is clamped to b before the access be:  `n = a; if (b < n) n = b;` — its only write besides
    the initialiser is one plain assignment `n = b` on the edge of a test of b against n on which b is the smaller, and no path through
    that edge reaches be around the assignment.  Then n <= b at be, like n = min(a, b).  Dataflow over the CFG; both spellings of the test."""
    from ..cfg import dominated_by_edge
    d = var.get("d")

    def is_v(x):
        x = strip_casts(x) if isinstance(x, dict) else None
        return x is not None and x.get("k") == "var" and x.get("d") == d
    assigns = []
    for n in f.nodes.values():
        if n.get("k") == "bin" and str(n.get("op", "")).endswith("=") and n["op"] not in ("==", "!=", "<=", ">=") and is_v(n.get("lhs")):
            assigns.append(n)
        elif n.get("k") == "un" and ("++" in n.get("op", "") or "--" in n.get("op", "") or n.get("op") == "&") and is_v(n.get("v")):
            return None
    if len(assigns) != 1 or assigns[0]["op"] != "=" or f.elem_for(assigns[0]) is None:
        return None
    A, bval = f.elem_for(assigns[0]), strip_casts(assigns[0]["rhs"])
    for b in f.blocks.values():
        if b.cond is None or len(b.succs) != 2 or not b.term or b.term.get("k") != "IfStmt" or None in b.succs:
            continue
        cp = common.cmp_oriented(strip_casts(b.cond), is_v)
        if not cp or show(strip_casts(cp[1])) != show(bval):
            continue
        edge = {"<": 0, "<=": 0, ">": 1, ">=": 1}.get(cp[0])     # the edge on which  b <(=) n
        if edge is None:
            continue
        if dominated_by_edge(f, A, b, edge, eh=False) and search(f, ("block", b.succs[edge]), lambda x: x is be, stop=lambda x: x is A, eh=False) is None:
            return (_local_init(f, var), bval)
    return None


def _bound_obligation(r5, f, cls, role, be, bn, fb=None):
    """the slot access is dominated by the not-full (producer) / not-empty (consumer) edge, or sits in a loop
    bounded by min(count, available)"""
    name = last(f.name)

    def classify_cond(c):
        c = strip_casts(c)
        if c is not None and fb is not None and _calls_helper(fb, cls, c):
            c = strip_casts(_inline(fb, cls, c))      # `if (isFull(head, tail))`: the test is the helper's expression over the arguments
        if c is None or c.get("k") != "bin":
            return None
        op = c["op"]
        if role == "producer" and _is_used(f, cls, c["lhs"]) and _is_capacity(f, cls, c["rhs"]):
            return {">=": "blocked", "==": "blocked", "<": "free", "!=": "free"}.get(op)
        if role == "consumer":
            lt, rh = _is_index_load(f, cls, c["lhs"], "_tail"), _is_index_load(f, cls, c["rhs"], "_head")
            lh, rt = _is_index_load(f, cls, c["lhs"], "_head"), _is_index_load(f, cls, c["rhs"], "_tail")
            if lt and rh:
                return {">=": "blocked", "==": "blocked", "<": "free", "!=": "free"}.get(op)
            if lh and rt:
                return {"<=": "blocked", "==": "blocked", ">": "free", "!=": "free"}.get(op)
        return None
    # (a) single-slot form
    from ..cfg import dominated_by_edge
    tests = []
    near = []
    for b in f.blocks.values():
        c = b.cond
        # any two-way branch that is not a loop head: an `if`, or one operand of a short-circuit chain (`if (full || stopping) return false;`
        # branches on the full test in a block of its own, terminator `||`); successor 0 is the edge on which the stored condition holds
        if c is None or len(b.succs) != 2 or b.edge_label(0) is not True or b.term["k"] in ("ForStmt", "WhileStmt", "DoStmt", "CXXForRangeStmt"):
            continue
        cl = classify_cond(c)
        if cl is None:
            ci = strip_casts(_inline(fb, cls, c)) if fb is not None else strip_casts(c)
            if ci is not None and ci.get("k") == "bin" and ci.get("op") in ("<", ">", "<=", ">=", "==", "!=") and classify_cond(dict(ci, op="==")) is not None:
                near.append(show(ci))      # the right operands, an operator that is neither the test nor its negation: named in the report
            continue
        free_edge = 1 if cl == "blocked" else 0
        tests.append((b.id, free_edge))
        if dominated_by_edge(f, be, b, free_edge, eh=False):
            r5.ok("%s::%s: slot access dominated by the %s edge of `%s`" % (last(cls), name, "false" if free_edge else "true", show(c)))
            return
    # (a') several tests (test the cached index, re-load and test again): no single edge dominates, but with the free edge of every
    # test removed the access is unreachable — every path to it has passed a test that said not-full / not-empty.  (The operands
    # are this call's snapshots and caches: a bound that held at the test still holds at the access.)
    if len(tests) > 1 and search(f, ("entry",), lambda x: x is be, edge_ok=lambda b, si: (b.id, si) not in tests, eh=False) is None:
        r5.ok("%s::%s: every path to the slot access takes the free edge of one of %d %s tests" % (last(cls), name, len(tests), "full" if role == "producer" else "empty"))
        return
    # (b) batch form: enclosing loop `i < n` with n = min(count, available), available = cap - (head - tail) | head - tail
    for b in f.blocks.values():
        if b.term and b.term["k"] in ("ForStmt", "WhileStmt") and b.cond is not None:
            c = strip_casts(b.cond)
            # pointer-range spelling of the counted loop: `for (p = base, end = base + n; p != end; ++p)` runs n times — the limit is n
            if c.get("k") == "bin" and c["op"] == "!=" and dominated_by_edge(f, be, b, 0, eh=False):
                for (pv, ev) in ((strip_casts(c["lhs"]), strip_casts(c["rhs"])), (strip_casts(c["rhs"]), strip_casts(c["lhs"]))):
                    if pv.get("k") == "var" and ev.get("k") == "var":
                        pi, ei = strip_casts(_local_init(f, pv)), strip_casts(_local_init(f, ev))
                        if pi is not None and ei is not None and ei.get("k") == "bin" and ei.get("op") == "+" and show(strip_casts(ei["lhs"])) == show(pi):
                            c = {"k": "bin", "op": "<", "lhs": pv, "rhs": ei["rhs"]}
                            break
            if c.get("k") == "bin" and c["op"] == "<" and dominated_by_edge(f, be, b, 0, eh=False):
                lim = strip_casts(c["rhs"])
                init = _local_init(f, lim) if lim.get("k") == "var" else lim
                mn = _min_of(init) or (_clamped_to(f, lim, be) if lim.get("k") == "var" else None)
                if mn:
                    for cand in mn:
                        cand = strip_casts(cand)
                        if cand is None:
                            continue
                        ci = _local_init(f, cand) if cand.get("k") == "var" else cand
                        ci = strip_casts(ci) if ci else None
                        if ci is None:
                            continue
                        if role == "producer" and ci.get("k") == "bin" and ci["op"] == "-" and _is_capacity(f, cls, ci["lhs"]) and _is_used(f, cls, ci["rhs"]):
                            r5.ok("%s::%s: batch loop bounded by min(count, capacity - (head - tail))" % (last(cls), name))
                            return
                        if role == "consumer" and _is_used(f, cls, ci):
                            r5.ok("%s::%s: batch loop bounded by min(maxCount, head - tail)" % (last(cls), name))
                            return
    # a helper of the class that is more than an expression (`if (!reserve(head)) return false;`) may hold the test: this rule keeps
    # no summary of such a helper, so the shape is refused, not reported
    if fb is not None:
        for x in f.stmts():
            if _helper_fns(fb, cls, x.node) and _expr_helper(fb, cls, x.node) is None and search(f, x, lambda y: y is be, eh=False) is not None:
                raise AnalysisBroken("%s::%s: the call `%s` on a path to the slot access may hold the %s test; helpers that are not a single returned expression are not followed by C10-R5"
                                     % (last(cls), name, show(x.node)[:50], "full" if role == "producer" else "empty"))
    r5.fail(f, be, "slot access unbounded",
            "the slot access `%s` is not dominated by the %s test (`head - tail >= capacity` / `tail >= head`) nor inside a loop bounded by "
            "min(count, available): the %s can overrun the other side%s" % (show(bn), "full" if role == "producer" else "empty", role,
                                                                          "; `%s` compares the right operands but with an operator that is not that test" % near[0] if near else ""))


def r6(ctx, r):
    """DynamicRingBuffer::resize (sequential by contract): the new buffer holds the min(count, newCapacity) most recent items in
    their order, and the indices it publishes describe exactly that.  Every index expression of the function is evaluated
    exactly over a finite domain of (capacity, tail, count, new capacity, i) — arithmetic identities, nothing is run."""
    import itertools
    from ..finite import compile_expr, NotPure
    DRB = "iora::core::DynamicRingBuffer"
    fs = [f for f in ctx.fb().funcs(DRB + "::resize") if f.ok]
    if not fs:
        raise AnalysisBroken("DynamicRingBuffer::resize not found")
    f = fs[0]
    inits, types = {}, {}
    for e in f.stmts():
        if e.node.get("k") == "decl":
            for dv in e.node["vars"]:
                types[dv["d"]] = dv.get("t")
                if dv.get("init") is not None:
                    inits[dv["d"]] = dv["init"]
    # roles: the two index snapshots and the new capacity are free; everything else is inlined down to them
    role = {}
    for d, i in inits.items():
        i0 = strip_casts(strip_wrappers(i))
        if i0.get("k") == "mcall" and last(i0.get("callee", "")) == "load":
            role[d] = {DRB + "::_tail": "tail", DRB + "::_head": "head"}.get(field_of(i0.get("obj")))
        elif i0.get("k") in ("call", "mcall") and last(i0.get("callee", "")) == "nextPowerOfTwo":
            role[d] = "ncap"
    if sorted(v for v in role.values() if v) != ["head", "ncap", "tail"]:
        raise AnalysisBroken("resize: head/tail snapshots or the rounded new capacity not identified (%s)" % sorted(str(v) for v in role.values()))
    loopvars = set()

    def inline(n, depth=0):
        if isinstance(n, list):
            return [inline(x, depth) for x in n]
        if not isinstance(n, dict):
            return n
        if n.get("k") == "var":
            d = n.get("d")
            if role.get(d):
                return {"k": "var", "n": role[d], "t": "unsigned long", "d": -1}
            if d in loopvars:
                return {"k": "var", "n": "i", "t": "unsigned long", "d": -2}
            if d in inits and depth < 8:
                return inline(inits[d], depth + 1)
        if n.get("k") == "member" and n["n"] == DRB + "::_mask":
            return {"k": "var", "n": "mask", "t": "unsigned long", "d": -3}
        if n.get("k") == "member" and n["n"] == DRB + "::_capacity":
            return {"k": "var", "n": "cap", "t": "unsigned long", "d": -4}
        return {k: inline(v, depth) if isinstance(v, (dict, list)) else v for k, v in n.items()}
    NAMES = ["head", "tail", "ncap", "mask", "cap", "i"]

    def ev(node, what):
        try:
            fn, _t, _c = compile_expr(inline(strip_casts(node)), NAMES)
        except NotPure as ex:
            raise AnalysisBroken("resize: %s `%s` is not a pure index expression (%s)" % (what, show(node)[:50], ex))
        return fn
    # the copy: one counted loop whose body is one element move
    loops = [b for b in f.blocks.values() if b.term and b.term.get("k") in ("ForStmt", "WhileStmt") and b.cond is not None]
    moves = [e for e in f.stmts() if e.node.get("k") in ("call", "mcall") and last(e.node.get("callee", "")) in ("move", "copy", "copy_n", "memcpy", "memmove", "move_backward", "uninitialized_move")
             and len(e.node.get("args", [])) >= 3]
    r.instance()
    if len(loops) != 1 or moves:
        raise AnalysisBroken("resize: the copy is not one per-index loop (%d loops, %d range copies) — a form this rule does not evaluate" % (len(loops), len(moves)))
    lb = loops[0]
    def is_counter(x):
        x = strip_casts(x)
        return x.get("k") == "var" and x.get("d") in inits and const_value(inits[x["d"]]) == 0
    cp = common.cmp_oriented(lb.cond, lambda x: not is_counter(x))
    iv = strip_casts(cp[1]) if cp else None
    if not cp or cp[0] != "<" or iv.get("k") != "var" or const_value(inits.get(iv.get("d"), {})) != 0:
        raise AnalysisBroken("resize: loop is not `for (i = 0; i < n; ++i)`")
    loopvars.add(iv["d"])
    bound = ev(cp[2], "loop bound")
    body = [e for e in f.stmts() if e.raw.get("root") and e.node.get("k") in ("opcall", "bin") and e.node.get("op") == "=" and search(f, ("block", lb.succs[0]), lambda x, e=e: x is e, stop=lambda x: x.block is lb, eh=False) is not None]
    if len(body) != 1:
        raise AnalysisBroken("resize: loop body is not a single element assignment (%d)" % len(body))
    asg = body[0].node
    lhs, rhs = (asg["args"][0], asg["args"][1]) if asg.get("k") == "opcall" else (asg["lhs"], asg["rhs"])
    # a slot reached through an expression helper of the class (`slot(start + i)`) is the helper's `_buffer[pos & _mask]` over the argument
    lhs, rhs = _inline(ctx.fb(), DRB, lhs), _inline(ctx.fb(), DRB, rhs)

    def index_of(n):
        for x in walk(n):
            if x.get("k") in ("opcall", "idx") and (x.get("op") == "[]" or x.get("k") == "idx"):
                return x["args"][1] if x.get("k") == "opcall" else (x.get("i") or x.get("idx") or x.get("rhs"))
        return None
    di, si = index_of(lhs), index_of(rhs)
    if di is None or si is None:
        raise AnalysisBroken("resize: element assignment `%s` not of the form new[..] = old[..]" % show(asg)[:60])
    dst, src = ev(di, "destination index"), ev(si, "source index")
    heads = [e for e in f.stmts() if e.node.get("k") == "mcall" and last(e.node.get("callee", "")) == "store" and field_of(e.node.get("obj")) == DRB + "::_head"]
    tails = [e for e in f.stmts() if e.node.get("k") == "mcall" and last(e.node.get("callee", "")) == "store" and field_of(e.node.get("obj")) == DRB + "::_tail"]
    masks = [(e, n) for (e, n, k) in common.field_writes(f, DRB + "::_mask")]
    caps = [(e, n) for (e, n, k) in common.field_writes(f, DRB + "::_capacity")]
    rets = common.returns(f)
    if not (len(heads) == len(tails) == len(masks) == len(caps) == len(rets) == 1):
        raise AnalysisBroken("resize: expected one store each to _head/_tail/_mask/_capacity and one return")
    nh, nt = ev(heads[0].node["args"][0], "_head value"), ev(tails[0].node["args"][0], "_tail value")
    nm, nc = ev(common.assigned_value(f, masks[0][1]), "_mask value"), ev(common.assigned_value(f, caps[0][1]), "_capacity value")
    rv = ev(rets[0].node["v"], "return value")
    bad = {}
    npts = 0
    M = 2 ** 64
    for cap in (1, 2, 4, 8):
        for tail in list(range(0, 2 * cap)) + [M - 3, M - 1]:
            for count in range(0, cap + 1):
                for ncap in (1, 2, 4, 8, 16):
                    head = (tail + count) % M
                    keep = min(count, ncap)
                    env = dict(head=head, tail=tail, ncap=ncap, mask=cap - 1, cap=cap, i=0)
                    npts += 1
                    a = lambda fn, **kw: fn(*[dict(env, **kw)[k] for k in NAMES])
                    if a(bound) != keep:
                        bad.setdefault("loop bound", (env, a(bound), keep))
                    if (a(nh) - a(nt)) % M != keep:
                        bad.setdefault("published count", (env, (a(nh) - a(nt)) % M, keep))
                    if a(nm) != ncap - 1 or a(nc) != ncap:
                        bad.setdefault("published capacity/mask", (env, (a(nc), a(nm)), (ncap, ncap - 1)))
                    if a(rv) != count - keep:
                        bad.setdefault("dropped count", (env, a(rv), count - keep))
                    for k in range(keep):
                        want_src = (head - keep + k) % M & (cap - 1)
                        if a(src, i=k) != want_src:
                            bad.setdefault("source index", (dict(env, i=k), a(src, i=k), want_src))
                        want_dst = (a(nt) + k) % M & (ncap - 1)
                        if a(dst, i=k) != want_dst:
                            bad.setdefault("destination index", (dict(env, i=k), a(dst, i=k), want_dst))
    for what in ("loop bound", "source index", "destination index", "published count", "published capacity/mask", "dropped count"):
        r.instance()
        b = bad.get(what)
        r.expect(b is None, f, body[0] if "index" in what else None, "resize: %s" % what,
                 "DynamicRingBuffer::resize: %s is %s where the k-th kept item (oldest first among the min(count, newCapacity) most recent) requires %s, e.g. for %s: items are lost, duplicated or reordered by a resize"
                 % (what, b[1] if b else "", b[2] if b else "", {k: v for k, v in (b[0] if b else {}).items()}), okdesc="resize: %s exact on %d states" % (what, npts))


def r7(ctx, r):
    """'…close and destruction across any number of producers and consumers … no data race': the destructor wakes the parked
    callers, but a woken caller is still INSIDE wait(): it re-locks the mutex and re-reads the queue and the closed flag.  The
    members may therefore be destroyed only after every parked caller has left — a waiter count maintained under the mutex
    around every wait, and a destructor that waits for it to reach zero."""
    fb, la = ctx.fb(), ctx.locks()
    ms = _bq_methods(fb)
    dt = [f for f in ms if f.kind == "dtor"]
    if len(dt) != 1:
        raise AnalysisBroken("~BlockingQueue: %d bodies" % len(dt))
    d = dt[0]

    def cv_waits(f):
        return [e for e in f.stmts() if e.node.get("k") == "mcall" and e.node.get("callee", "").startswith("std::condition_variable") and last(e.node["callee"]) in common.CV_WAIT]
    # which counter does the destructor wait for?
    counter = None
    for e in cv_waits(d):
        args = [a for a in e.node.get("args", []) if not a.get("def")]
        P = common._resolve_pred(fb, d, args[-1]) if args else None
        if P is None:
            continue
        for x in P.nodes.values():
            if x.get("k") == "member" and x["n"].startswith(BQ + "::") and x["n"] not in (BQ + "::_queue", BQ + "::_closed", BQ + "::_maxSize"):
                counter = x["n"]
    r.instance()
    if not r.expect(counter is not None, d, None, "destroyed under woken callers", "~BlockingQueue closes the queue (waking every parked caller) and returns at once: the members are destroyed while the woken callers are still "
                    "inside condition_variable::wait — re-locking _mutex, re-reading _queue and _closed — a use of destroyed objects (heap-use-after-free for a heap-allocated queue) and a data race",
                    okdesc="destructor waits for the parked callers to leave"):
        return
    # every wait of every operation is bracketed by ++counter / --counter under the mutex
    def touches(f, e, up):
        n = e.node
        ops = ("++", "pre++", "post++", "+=") if up else ("--", "pre--", "post--", "-=")
        if n.get("k") in ("un", "bin", "opcall") and n.get("op") in ops and any(x.get("k") == "member" and x["n"] == counter for x in walk(n)):
            return True
        if not up and n.get("k") == "mcall":
            for g in fb.by_name.get(n.get("callee"), []):
                if g.ok and any(y.get("k") in ("un", "bin") and y.get("op") in ops and any(x.get("k") == "member" and x["n"] == counter for x in walk(y)) for y in g.nodes.values()):
                    return True
        return False
    nw = 0
    for f in ms:
        if f is d or f.kind == "lambda":
            continue
        for w in cv_waits(f):
            nw += 1
            r.instance()
            ups = [e for e in f.stmts() if touches(f, e, True) and elem_dominates(f, e, w) and la.holds(f, e, BQ + "::_mutex")]
            downs = [e for e in f.stmts() if touches(f, e, False)]
            esc = search(f, w, "exit", stop=lambda x: x in downs, eh=False)
            r.expect(bool(ups) and esc is None, f, w, "wait not counted", "%s parks without announcing itself in %s (++ under _mutex before the wait, -- after it on every path): the destructor cannot know this caller is "
                     "still inside wait()" % (short(f.name), short(counter)), okdesc="%s: wait bracketed by the waiter count" % short(f.name))
    if nw < 6:
        raise AnalysisBroken("BlockingQueue: only %d waits found" % nw)


def run(ctx, ck):
    ck.run_rule("C10-R1", "BlockingQueue::_queue is accessed only under _mutex", "A1 lockset", lambda r: r1(ctx, r))
    ck.run_rule("C10-R2", "condition-variable discipline: no lost wake-up; every state change notifies", "A1 lockset + A2 must-pass", lambda r: r2(ctx, r))
    ck.run_rule("C10-R6", "DynamicRingBuffer::resize keeps the most recent items in order and publishes matching indices", "exact finite-domain evaluation of the index expressions", lambda r: r6(ctx, r))
    ck.run_rule("C10-R7", "the queue is not destroyed while woken callers are still inside wait()", "protocol rule: waiter count bracketing every wait + destructor wait", lambda r: r7(ctx, r))
    ck.run_rule("C10-R3", "capacity bound, closed contract and FIFO end discipline on every path", "A5 predicate abstraction + A2", lambda r: r3(ctx, r))
    r4 = ck.rule("C10-R4", "SPSC index operations carry acquire/release by role", "A6 atomic-order table")
    r5 = ck.rule("C10-R5", "slot access is bounded by the full/empty test and precedes publication", "A2 dominance")
    try:
        r4_r5(ctx, r4, r5)
    except AnalysisBroken as ex:
        r4.broken = str(ex)
        ck.broken.append("C10-R4/R5: %s" % ex)
