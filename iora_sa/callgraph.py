"""A3: call graph over the resolved program.

Direct calls by resolved callee; virtual calls to every overrider in the TU; std::function values by a
field-based points-to over lambda / function assignments (DESIGN.md 1.3 A3).
"""
from .expr import walk, access_path, field_of, strip_wrappers, last

SYNC_LAMBDA_CALLEES = (
    "std::find_if", "std::find_if_not", "std::remove_if", "std::any_of", "std::all_of", "std::none_of",
    "std::for_each", "std::sort", "std::stable_sort", "std::count_if", "std::transform", "std::erase_if",
    "std::lower_bound", "std::upper_bound", "std::min_element", "std::max_element", "std::partition",
    "std::unique", "std::accumulate", "std::equal", "std::search", "std::copy_if", "std::generate",
    "std::call_once", "std::invoke", "std::apply", "std::visit",
)
CV_WAITS = ("std::condition_variable::wait", "std::condition_variable::wait_for",
            "std::condition_variable::wait_until", "std::condition_variable_any::wait",
            "std::condition_variable_any::wait_for", "std::condition_variable_any::wait_until")


class CallGraph:
    def __init__(self, fb):
        self.fb = fb
        self.callers = {}        # callee name -> [(Function, Elem, node)]
        self.calls = {}          # Function.sig -> [(Elem, node, callee name)]
        self.overriders = {}     # base method name -> set(derived method names)
        self.fn_field_targets = {}   # field qname (std::function member) -> set(function names)
        self.lambda_role = {}    # lambda fn name -> dict(role=..., callee=..., arg=..., field=..., var=...)
        self._build()

    def _build(self):
        fb = self.fb
        for f in fb.functions:
            for o in f.raw.get("overrides", []):
                self.overriders.setdefault(o, set()).add(f.name)
        # transitive closure of overriding
        changed = True
        while changed:
            changed = False
            for b, ds in list(self.overriders.items()):
                for d in list(ds):
                    for dd in self.overriders.get(d, ()):
                        if dd not in ds:
                            ds.add(dd)
                            changed = True
        for f in fb.functions:
            if not f.ok:
                continue
            lst = []
            for e in f.stmts():
                n = e.node
                k = n.get("k")
                if k in ("call", "mcall", "opcall"):
                    c = n.get("callee")
                    if c:
                        lst.append((e, n, c))
                        self.callers.setdefault(c, []).append((f, e, n))
                        if n.get("virt"):
                            for d in self.overriders.get(c, ()):
                                lst.append((e, n, d))
                                self.callers.setdefault(d, []).append((f, e, n))
                elif k == "ctor":
                    c = n.get("cls", "") + "::<ctor>"
                    lst.append((e, n, c))
                    self.callers.setdefault(c, []).append((f, e, n))
            self.calls[f.sig] = lst
            self._lambda_roles(f)
        self._fn_fields()

    # how does each lambda escape?
    def _lambda_roles(self, f):
        for n in f.nodes.values():
            if n.get("k") != "lambda":
                continue
            role = {"role": "unknown", "in": f.name}
            pid = f.parent.get(n["id"])
            child = n
            # climb through wrappers (std::move, casts, std::function ctor)
            while pid is not None:
                p = f.nodes[pid]
                pk = p.get("k")
                if pk == "cast" or (pk == "call" and p.get("callee") in ("std::move", "std::forward")):
                    child, pid = p, f.parent.get(pid)
                    continue
                if pk == "ctor" and p.get("cls") in ("std::function",) and len(p["args"]) == 1:
                    child, pid = p, f.parent.get(pid)
                    continue
                break
            if pid is not None:
                p = f.nodes[pid]
                pk = p.get("k")
                if pk in ("call", "mcall", "opcall", "ctor"):
                    args = p.get("args", [])
                    idx = None
                    for i, a in enumerate(args):
                        if a is child:
                            idx = i
                    callee = p.get("callee") if pk != "ctor" else p.get("cls", "") + "::<ctor>"
                    if pk == "opcall" and p.get("op") == "()" and idx == 0:
                        role = {"role": "immediate", "in": f.name}
                    elif pk == "opcall" and p.get("op") == "=" and idx == 1:
                        role = {"role": "assigned", "in": f.name, "field": field_of(args[0]),
                                "path": access_path(args[0])}
                    elif callee in CV_WAITS:
                        role = {"role": "cv_pred", "in": f.name, "callee": callee, "call": p}
                    elif callee in SYNC_LAMBDA_CALLEES:
                        role = {"role": "sync_arg", "in": f.name, "callee": callee, "call": p}
                    elif callee == "std::thread::<ctor>":
                        role = {"role": "thread", "in": f.name}
                    else:
                        role = {"role": "arg", "in": f.name, "callee": callee, "arg": idx, "call": p}
                elif pk == "bin" and p.get("op") == "=" and p.get("rhs") is child:
                    role = {"role": "assigned", "in": f.name, "field": field_of(p["lhs"]),
                            "path": access_path(p["lhs"])}
                elif pk == "decl":
                    for v in p["vars"]:
                        if v.get("init") is child:
                            role = {"role": "local", "in": f.name, "var": v["n"], "d": v["d"]}
                elif pk == "ret":
                    role = {"role": "returned", "in": f.name}
                elif pk == "ilist":
                    role = {"role": "ilist", "in": f.name}
            self.lambda_role[n["fn"]] = role

    def _fn_fields(self):
        """field-based points-to for std::function members: every lambda assigned to / constructed into
        a field, plus locals flowing one step into a field"""
        fb = self.fb
        for f in fb.functions:
            if not f.ok:
                continue
            for n in f.nodes.values():
                k = n.get("k")
                lhs = rhs = None
                if k == "opcall" and n.get("op") == "=" and len(n["args"]) == 2:
                    lhs, rhs = n["args"]
                elif k == "bin" and n.get("op") == "=":
                    lhs, rhs = n["lhs"], n["rhs"]
                if lhs is None:
                    continue
                fld = field_of(lhs)
                if not fld:
                    continue
                r = strip_wrappers(rhs)
                while r is not None and r.get("k") == "ctor" and r.get("cls") == "std::function" and len(r["args"]) == 1:
                    r = strip_wrappers(r["args"][0])
                if r is None:
                    continue
                if r.get("k") == "lambda":
                    self.fn_field_targets.setdefault(fld, set()).add(r["fn"])

    # ---- queries
    def callees_of(self, f):
        return self.calls.get(f.sig, [])

    def reach(self, roots, stop=None, follow_lambdas=True):
        """set of function names reachable from the given Function objects through direct/virtual calls
        and lambdas created inside them (a lambda created in F is conservatively considered callable
        from F)"""
        fb = self.fb
        seen = set()
        work = list(roots)
        while work:
            f = work.pop()
            if f.sig in seen:
                continue
            seen.add(f.sig)
            if stop and stop(f):
                continue
            for e, n, c in self.callees_of(f):
                for g in fb.by_name.get(c, []):
                    if g.sig not in seen:
                        work.append(g)
            if follow_lambdas:
                for ln, lf in f.lambdas:
                    if lf.sig not in seen:
                        work.append(lf)
        return seen

    def transitive_callers(self, name):
        """names of all functions from which `name` is reachable by direct/virtual calls; a lambda
        counts as called by its enclosing function"""
        fb = self.fb
        seen = set()
        work = [name]
        while work:
            c = work.pop()
            for (f, e, n) in self.callers.get(c, []):
                if f.name not in seen:
                    seen.add(f.name)
                    work.append(f.name)
            for g in fb.by_name.get(c, []):
                if g.kind == "lambda" and g.enclosing is not None and g.enclosing.name not in seen:
                    seen.add(g.enclosing.name)
                    work.append(g.enclosing.name)
        return seen


_CG = {}


def get(fb):
    if id(fb) not in _CG:
        _CG[id(fb)] = CallGraph(fb)
    return _CG[id(fb)]
