"""Checker validation (DESIGN.md 1.6): seeded mutants must fire the named rule, benign variants must stay silent.

Each patch under /verif/mutants/<PID>/*.diff is applied to a scratch copy of /repo's include/ and src/ (outside
/repo and /verif, removed at once) and the property's quick check is run on that copy."""
import concurrent.futures
import os
import re
import shutil
import subprocess
import sys
import tempfile

from .facts import VERIF, REPO


def _one(pid, path):
    name = os.path.basename(path)
    with open(path) as fh:
        head = fh.readline()
    m = re.match(r"#\s*expect:\s*(\S+)", head)
    expect = m.group(1) if m else "?"
    scratch = tempfile.mkdtemp(prefix="iora-verif-mut-")
    try:
        for sub in ("include", "src"):
            shutil.copytree(os.path.join(REPO, sub), os.path.join(scratch, sub))
        r = subprocess.run(["patch", "-p1", "-s", "--fuzz=3", "-i", path], cwd=scratch, stdout=subprocess.PIPE,
                           stderr=subprocess.STDOUT, text=True)
        if r.returncode != 0:
            return (name, expect, "patch-failed", r.stdout[-300:])
        env = dict(os.environ)
        env["IORA_REPO"] = scratch
        env["IORA_VERIF_NO_EVIDENCE"] = "1"
        env["IORA_VERIF_CACHE"] = os.path.join(scratch, ".cache")
        env["IORA_VERIF_OUT"] = os.path.join(scratch, "out")
        r = subprocess.run([sys.executable, os.path.join(VERIF, "check"), pid, "--tier", "quick"], cwd=VERIF, env=env,
                           stdout=subprocess.PIPE, stderr=subprocess.STDOUT, text=True)
        out = r.stdout
        if expect == "refuse":
            # a behaviour-preserving edit the rules cannot follow (e.g. a rename of an anchored local): the only acceptable
            # answers are a pass or an explicit refusal (exit 2) — never a VIOLATION
            ok = r.returncode in (0, 2) and "VIOLATION" not in out
            return (name, expect, "ok" if ok else "FALSE-ALARM(rc=%d)" % r.returncode, "" if ok else out[-1500:])
        if expect.startswith("clears="):
            # a repaired variant of a recorded known finding: the check must pass AND the finding's line must be gone
            rule = expect.split("=", 1)[1]
            ok = r.returncode == 0 and "VIOLATION" not in out and not any("KNOWN-FINDING" in l and ("rule=%s " % rule) in l for l in out.splitlines())
            return (name, expect, "ok" if ok else "NOT-CLEARED(rc=%d)" % r.returncode, "" if ok else out[-1500:])
        if expect == "silent":
            ok = r.returncode == 0 and "VIOLATION" not in out
            return (name, expect, "ok" if ok else "FALSE-ALARM(rc=%d)" % r.returncode, "" if ok else out[-1500:])
        fired = set(re.findall(r"rule=(\S+)", "\n".join(l for l in out.splitlines() if "KNOWN-FINDING" not in l)))
        ok = r.returncode == 1 and expect in fired
        return (name, expect, "ok" if ok else "MISSED(rc=%d fired=%s)" % (r.returncode, ",".join(sorted(fired)) or "-"),
                "" if ok else out[-1500:])
    finally:
        shutil.rmtree(scratch, ignore_errors=True)


def run(pid, jobs=8, verbose=True):
    d = os.path.join(VERIF, "mutants", pid)
    if not os.path.isdir(d):
        return []
    paths = sorted(os.path.join(d, f) for f in os.listdir(d) if f.endswith(".diff"))
    with concurrent.futures.ThreadPoolExecutor(max_workers=jobs) as ex:
        res = list(ex.map(lambda p: _one(pid, p), paths))
    if verbose:
        for (name, expect, st, detail) in res:
            print("  mutant %-44s expect=%-10s %s" % (name, expect, st))
            if detail and os.environ.get("IORA_VERIF_SELFTEST_VERBOSE"):
                print(detail)
    return res


if __name__ == "__main__":
    os.environ.setdefault("IORA_VERIF_SELFTEST_VERBOSE", "1")
    bad = 0
    for pid in sys.argv[1:]:
        for (_, _, st, _) in run(pid.upper()):
            if st != "ok":
                bad += 1
    sys.exit(1 if bad else 0)
