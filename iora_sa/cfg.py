"""CFG analyses: dominance, reachability with witnesses, a generic forward dataflow engine (A2, part of A5)."""
from collections import deque

from .expr import CALL_KINDS


# standard-library members that cannot throw: no synthetic exception edge leaves them
NOTHROW_STD = {"operator->", "operator*", "get", "operator bool", "size", "empty", "begin", "end", "cbegin", "cend", "data", "load", "store",
               "exchange", "fetch_add", "fetch_sub", "compare_exchange_strong", "compare_exchange_weak", "front", "back", "c_str", "length",
               "joinable", "get_id", "notify_one", "notify_all", "unlock", "owns_lock", "count", "swap", "move", "forward", "addressof",
               "operator!=", "operator==", "operator<", "operator++", "operator--", "has_value", "value_or", "release", "reset", "time_since_epoch",
               "now", "min", "max", "operator[]", "find", "end", "rbegin", "rend", "capacity", "clear", "pop_front", "pop_back"}


def may_throw_elem(e):
    if e.kind != "stmt":
        return False
    n = e.node
    k = n.get("k")
    if k == "throw":
        return True
    if k not in CALL_KINDS:
        return False
    c = n.get("callee") or ""
    if c in ("abort", "std::abort", "std::terminate", "exit", "_Exit", "_exit", "std::exit", "std::quick_exit"):
        return False      # does not return and does not unwind
    if c.startswith("std::") and c.split("::")[-1] in NOTHROW_STD:
        return False
    if k == "ctor" and n.get("cls", "").startswith(("std::lock_guard", "std::unique_lock", "std::shared_lock")):
        return False
    return True


def eh_targets(f, e):
    """dispatch blocks an exception raised at element e may reach (innermost try and its ancestors)"""
    out = []
    t = e.try_id
    while t:
        d = f.try_dispatch.get(t) if hasattr(f, "try_dispatch") else None
        if d is not None:
            out.append(d.id)
        t = f.trys.get(t, {}).get("parent", 0)
    return out


def _uncaught_edge(f, b, s):
    """the try-dispatch block's edge that stands for 'no handler matched': the exception leaves the function,
    which is not a normal exit"""
    if b.term and b.term.get("k") == "CXXTryStmt":
        lab = f.blocks[s].label
        return not (lab and lab.get("k") == "catch")
    return False


def succ_ids(b, eh=True):
    out = [s for s in b.succs if s is not None]
    if eh:
        out += b.eh_succs
    return out


def pred_ids(b, eh=True):
    return b.preds + (b.eh_preds if eh else [])


# ------------------------------------------------------------------ dominators

def dominators(f, eh=True):
    """block id -> frozenset of dominating block ids (reflexive); unreachable blocks map to all blocks"""
    key = "_dom_eh" if eh else "_dom"
    if getattr(f, key, None) is not None:
        return getattr(f, key)
    ids = list(f.blocks)
    allb = frozenset(ids)
    dom = {b: allb for b in ids}
    dom[f.entry] = frozenset([f.entry])
    order = _rpo(f, f.entry, lambda b: succ_ids(f.blocks[b], eh))
    changed = True
    while changed:
        changed = False
        for b in order:
            if b == f.entry:
                continue
            ps = [p for p in pred_ids(f.blocks[b], eh) if p in dom]
            new = None
            for p in ps:
                new = dom[p] if new is None else (new & dom[p])
            new = (new or frozenset()) | {b}
            if new != dom[b]:
                dom[b] = new
                changed = True
    setattr(f, key, dom)
    return dom


def postdominators(f, eh=True):
    """block id -> frozenset of post-dominating block ids w.r.t. the exit block"""
    key = "_pdom_eh" if eh else "_pdom"
    if getattr(f, key, None) is not None:
        return getattr(f, key)
    ids = list(f.blocks)
    allb = frozenset(ids)
    pd = {b: allb for b in ids}
    pd[f.exit] = frozenset([f.exit])
    order = _rpo(f, f.exit, lambda b: pred_ids(f.blocks[b], eh))
    changed = True
    while changed:
        changed = False
        for b in order:
            if b == f.exit:
                continue
            ss = succ_ids(f.blocks[b], eh)
            new = None
            for s in ss:
                new = pd[s] if new is None else (new & pd[s])
            new = (new or frozenset()) | {b}
            if new != pd[b]:
                pd[b] = new
                changed = True
    setattr(f, key, pd)
    return pd


def _rpo(f, start, nxt):
    seen, out = set(), []
    stack = [(start, iter(nxt(start)))]
    seen.add(start)
    while stack:
        b, it = stack[-1]
        adv = False
        for s in it:
            if s not in seen:
                seen.add(s)
                stack.append((s, iter(nxt(s))))
                adv = True
                break
        if not adv:
            out.append(b)
            stack.pop()
    out.reverse()
    return out


def reachable_blocks(f, eh=True):
    return set(_rpo(f, f.entry, lambda b: succ_ids(f.blocks[b], eh)))


def elem_dominates(f, a, b, eh=True):
    """element a is executed on every path from entry to element b"""
    if a.block.id == b.block.id:
        return a.idx < b.idx
    return a.block.id in dominators(f, eh)[b.block.id]


def elem_postdominates(f, a, b, eh=True):
    """element a is executed on every path from element b to the exit"""
    if a.block.id == b.block.id:
        return a.idx > b.idx
    return a.block.id in postdominators(f, eh)[b.block.id]


# ------------------------------------------------------------------ reachability with witnesses

def search(f, start, goal, stop=None, edge_ok=None, eh=True, include_start=False):
    """Breadth-first search over element positions.

    start : Elem (search begins *after* it unless include_start), or ('entry',) for the function entry,
            or ('block', id) for the start of a block
    goal  : predicate(Elem) -> bool, or the string 'exit' (normal function exit reached)
    stop  : predicate(Elem) -> bool; paths are cut *at* a stopping element (it is not passed)
    edge_ok : predicate(block, succ_index) -> bool; False removes that CFG edge
    Returns None if the goal is unreachable, else a witness: list of (block id, first idx, last idx).
    """
    if isinstance(start, tuple):
        if start[0] == "entry":
            q0 = (f.entry, 0)
        else:
            q0 = (start[1], 0)
    else:
        q0 = (start.block.id, start.idx if include_start else start.idx + 1)
    seen = {}
    dq = deque()
    dq.append(q0)
    seen[q0] = None

    def back(pos, endidx):
        path = []
        cur = pos
        first = True
        while cur is not None:
            path.append((cur[0], cur[1], endidx if first else None))
            first = False
            cur = seen[cur]
        path.reverse()
        return path

    while dq:
        pos = dq.popleft()
        bid, idx = pos
        b = f.blocks[bid]
        cut = False
        i = idx
        while i < len(b.elems):
            e = b.elems[i]
            if goal != "exit" and goal(e):
                return back(pos, i)
            if stop is not None and stop(e):
                cut = True
                break
            if eh and e.try_id and may_throw_elem(e):
                for t in eh_targets(f, e):
                    np = (t, 0)
                    if np not in seen:
                        seen[np] = pos
                        dq.append(np)
            if e.kind == "stmt" and e.node.get("k") == "throw" and "root" in e.raw:
                cut = True      # control does not continue after a throw (clang's CFG routes the block to EXIT)
                break
            i += 1
        if cut:
            continue
        if b.raw.get("noreturn"):
            continue        # the block ends in a call that does not return (abort, __assert_fail): no path continues, and it is not a normal exit
        if goal == "exit" and bid == f.exit:
            return back(pos, len(b.elems))
        for si, s in enumerate(b.succs):
            if s is None:
                continue
            if _uncaught_edge(f, b, s):
                continue
            if edge_ok is not None and not edge_ok(b, si):
                continue
            np = (s, 0)
            if np not in seen:
                seen[np] = pos
                dq.append(np)
    return None


def witness_str(f, w):
    if not w:
        return ""
    parts = []
    for bid, i0, i1 in w:
        b = f.blocks[bid]
        ln = None
        for e in b.elems[i0:]:
            if e.line:
                ln = e.line
                break
        if ln is None and b.term:
            ln = b.term.get("l")
        parts.append("B%d%s" % (bid, "@%d" % ln if ln else ""))
    # compress
    out = []
    for p in parts:
        if not out or out[-1] != p:
            out.append(p)
    if len(out) > 14:
        out = out[:6] + ["…"] + out[-7:]
    return "→".join(out)


def all_paths_pass(f, start, through, eh=True, edge_ok=None, goal="exit"):
    """every path from start to `goal` (default: normal exit) passes an element satisfying `through`;
    returns (True, None) or (False, witness)"""
    w = search(f, start, goal, stop=through, eh=eh, edge_ok=edge_ok)
    return (w is None), w


def dominated_by_edge(f, elem, block, succ_index, eh=True):
    """every path from entry to elem takes edge (block -> its succ_index-th successor)"""
    others = [i for i in range(len(block.succs)) if i != succ_index]

    def ok(b, si):
        return not (b.id == block.id and si in others)
    # reachable without the other edges of that branch == must still pass the block... we need:
    # unreachable when the chosen edge is removed
    def ok2(b, si):
        return not (b.id == block.id and si == succ_index)
    w = search(f, ("entry",), lambda e: e is elem, edge_ok=ok2, eh=eh)
    return w is None


# ------------------------------------------------------------------ forward dataflow

class Forward:
    """Forward dataflow at element granularity.

    transfer(state, elem) -> state
    join(a, b) -> state
    edge(state, block, succ_index) -> state | None   (optional; None = infeasible edge)
    States must be hashable/comparable with ==.  `top` is the identity of join (unvisited).
    """

    def __init__(self, f, init, transfer, join, edge=None, eh=True, eh_filter=None, eh_after=False):
        self.f = f
        self.eh_after = eh_after   # exception edges carry the state AFTER the throwing element (for "was invoked" ghosts)
        self.transfer = transfer
        self.join = join
        self.edge = edge
        self.eh = eh
        self.eh_filter = eh_filter
        self.block_in = {}
        self.block_in[f.entry] = init
        self._run()

    def _run(self):
        f = self.f
        work = deque([f.entry])
        inq = {f.entry}
        iters = 0
        while work:
            iters += 1
            if iters > 200000:
                raise RuntimeError("dataflow did not converge in %s" % f.name)
            bid = work.popleft()
            inq.discard(bid)
            b = f.blocks[bid]
            st = self.block_in[bid]
            for e in b.elems:
                if self.eh and e.try_id and may_throw_elem(e):
                    est0 = self.transfer(st, e) if self.eh_after else st
                    est = self.eh_filter(est0, e) if self.eh_filter else est0
                    for t in eh_targets(f, e):
                        self._merge(t, est, work, inq)
                st = self.transfer(st, e)
                if e.kind == "stmt" and e.node.get("k") == "throw" and "root" in e.raw:
                    thrown = True
                    break
            else:
                thrown = False
            if thrown or b.raw.get("noreturn"):
                continue        # a throw / noreturn call does not reach the block's CFG successors
            for si, s in enumerate(b.succs):
                if s is None:
                    continue
                if _uncaught_edge(f, b, s):
                    continue
                out = st
                if self.edge is not None:
                    out = self.edge(st, b, si)
                    if out is None:
                        continue
                self._merge(s, out, work, inq)

    def _merge(self, bid, st, work, inq):
        if bid in self.block_in:
            new = self.join(self.block_in[bid], st)
            if new == self.block_in[bid]:
                return
            self.block_in[bid] = new
        else:
            self.block_in[bid] = st
        if bid not in inq:
            inq.add(bid)
            work.append(bid)

    def before(self, elem):
        """state just before elem executes (None if elem is unreachable)"""
        st = self.block_in.get(elem.block.id)
        if st is None:
            return None
        for e in elem.block.elems[:elem.idx]:
            st = self.transfer(st, e)
        return st

    def after(self, elem):
        st = self.before(elem)
        return None if st is None else self.transfer(st, elem)

    def at_block_end(self, b):
        st = self.block_in.get(b.id)
        if st is None:
            return None
        for e in b.elems:
            st = self.transfer(st, e)
        return st
