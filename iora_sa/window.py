"""A7: cursor-window abstract interpretation for the hand-written decoders (DESIGN.md 1.3 A7).

The abstract value of a (cursor, limit) pair is a LOWER BOUND on `limit - cursor`, kept as a linear form
`c + sym1 + sym2 …` over integer constants and *named lengths* (local variables that hold a length decoded
from the input and were compared with the window).  Guards raise the bound on the proper branch edge,
cursor arithmetic lowers it, reads state a requirement.  The lattice has finite height for a given function
(constants that occur in it, subsets of its symbols), joins take the componentwise minimum.

A rule supplies three callbacks that recognise the decoder's idioms:
    edge(cond_node, truth)  -> list of ops   knowledge gained when the condition evaluates to `truth`
    elem(Elem)              -> list of ops   effects / requirements of a CFG element
ops:  ('atleast', form)         avail >= form now holds
      ('need', form, what)      a read that requires avail >= form
      ('adv', form)             cursor advanced by form
      ('reset', form|None)      cursor re-based: avail is exactly >= form (None = unknown)
      ('kill', sym)             the named length was overwritten
Forms are built with `lin(node)`; `None` means 'not a linear form over constants and local names'.
"""
from collections import Counter

from .cfg import Forward
from .expr import strip_casts, const_value

UNKNOWN = (-10 ** 9, ())   # legacy sentinel form: "no information" (as an initial value it denotes the empty state)
TOP = (10 ** 6, ())        # "no path reaches here yet" for interprocedural summaries (greatest element)
NOTHING = ()               # state with no known lower bound
TOPSTATE = (TOP,)

# A *form* is (const, sorted tuple of symbols): the lower bound const + Σ symbols (symbols are non-negative).
# A *state* is a tuple of forms that all hold (a conjunction of lower bounds); () knows nothing.


def form(c=0, syms=()):
    return (int(c), tuple(sorted(syms)))


def is_form(x):
    return isinstance(x, tuple) and len(x) == 2 and isinstance(x[0], int)


def is_top(x):
    if is_form(x):
        return x[0] >= 10 ** 5
    return bool(x) and all(f[0] >= 10 ** 5 for f in x)


def lin(n, names=None):
    """linear form of an expression tree: sums of integer constants and local variables (casts ignored)"""
    n = strip_casts(n)
    if n is None:
        return None
    cv = const_value(n)
    if cv is not None and n.get("k") in ("int", "sizeof", "cast", "char", "enum", "bin", "un", "gvar", "member", "opcall", "cond"):
        return form(cv)
    k = n.get("k")
    if k == "var":
        return form(0, (n["n"],))
    if k == "bin" and n["op"] == "+":
        a, b = lin(n["lhs"]), lin(n["rhs"])
        if a is None or b is None:
            return None
        return form(a[0] + b[0], a[1] + b[1])
    if k == "bin" and n["op"] == "-":
        a, b = lin(n["lhs"]), lin(n["rhs"])
        if a is None or b is None or b[1]:
            return None
        return form(a[0] - b[0], a[1])
    if k == "member":
        from .expr import show
        return form(0, (show(n),))
    if k == "mcall" and not n.get("args"):
        from .expr import show
        return form(0, (show(n),))
    return None



def leq_form(need, have):
    """need <= have for every valuation of the (non-negative) symbols"""
    if have is None or need is None or have == UNKNOWN:
        return False
    if have[0] >= 10 ** 5:
        return need[0] < 10 ** 5 or True
    cn, ch = Counter(need[1]), Counter(have[1])
    for s, k in cn.items():
        if ch.get(s, 0) < k:
            return False
    return need[0] <= have[0]


def as_state(x):
    if x is None or x == UNKNOWN:
        return NOTHING
    if is_form(x):
        return (x,)
    return tuple(x)


def leq(need, have):
    """the requirement `need` (a form) is implied by `have` (a form or a state)"""
    if need is None:
        return False
    return any(leq_form(need, h) for h in as_state(have))


def norm(forms):
    fs = []
    for f in set(forms):
        if f is None or f == UNKNOWN or f[0] < -8:
            continue
        fs.append(f)
    if any(f[0] >= 10 ** 5 for f in fs):
        return TOPSTATE
    keep = []
    for f in fs:
        if any(g != f and leq_form(f, g) for g in fs):
            continue
        keep.append(f)
    keep.sort(key=lambda f: (-f[0], f[1]))
    return tuple(keep[:4])


def meet_form(a, b):
    ca, cb = Counter(a[1]), Counter(b[1])
    return form(min(a[0], b[0]), list((ca & cb).elements()))


def meet(a, b):
    """join of the dataflow (both paths possible): every pairwise weakest common bound"""
    a, b = as_state(a), as_state(b)
    if is_top(a):
        return b
    if is_top(b):
        return a
    return norm([meet_form(x, y) for x in a for y in b])


def better(a, b):
    """both hold"""
    return norm(list(as_state(a)) + list(as_state(b)))


def show_form(f):
    if f is None or f == UNKNOWN or f == NOTHING:
        return "nothing"
    if not is_form(f):
        return " and ".join(show_form(x) for x in f)
    if f[0] >= 10 ** 5:
        return "unreached"
    parts = [str(f[0])] if f[0] or not f[1] else []
    return "+".join(parts + [s for s in f[1]])


class Window:
    def __init__(self, f, edge, elem, init=UNKNOWN):
        self.f = f
        self.edge_cb = edge
        self.elem_cb = elem
        self.violations = []     # (Elem, need form, have state, what)
        self.checked = []        # (Elem, what) discharged
        self._collect = False
        self.flow = Forward(f, as_state(init), self._transfer, meet, edge=self._edge, eh=False)
        # second pass over the fixpoint to collect requirement verdicts
        self._collect = True
        for b in f.blocks.values():
            st = self.flow.block_in.get(b.id, "unreached")
            if st == "unreached":
                continue
            for e in b.elems:
                st = self._transfer(st, e)

    def _apply(self, st, ops, e=None):
        for op in ops or ():
            k = op[0]
            if k == "atleast":
                st = better(st, op[1])
            elif k == "atleast_if_nonneg":
                # `cur != size` excludes avail == 0; that yields avail >= 1 only under the invariant avail >= 0
                if leq(form(0), st):
                    st = better(st, op[1])
            elif k == "need":
                if self._collect and e is not None:
                    if op[1] is not None and not is_top(op[1]) and leq(op[1], st):
                        self.checked.append((e, op[2]))
                    else:
                        self.violations.append((e, op[1], st, op[2]))
            elif k == "adv":
                if is_top(st) and op[1] is not None and not op[1][1]:
                    if self._collect and e is not None and len(op) > 2:
                        self.checked.append((e, op[2]))   # TOP (optimistic interprocedural start) absorbs constant advances
                elif op[1] is not None and leq(op[1], st):
                    if self._collect and e is not None and len(op) > 2:
                        self.checked.append((e, op[2]))
                    out = []
                    for g in st:
                        if leq_form(op[1], g):
                            c = Counter(g[1])
                            c.subtract(Counter(op[1][1]))
                            out.append(form(g[0] - op[1][0], list(c.elements())))
                    st = norm(out)
                else:
                    if self._collect and e is not None and len(op) > 2:
                        self.violations.append((e, op[1], st, op[2]))
                    # a labelled advance is a requirement: reported once, then assumed (the invariant avail >= 0 is restored)
                    st = (form(0),) if len(op) > 2 else NOTHING
            elif k == "reset":
                st = as_state(op[1])
            elif k == "zerosym":
                # a local counter was just set to 0: avail >= c  ==>  avail >= c + counter
                if not is_top(st):
                    st = norm([g if op[1] in g[1] else form(g[0], list(g[1]) + [op[1]]) for g in st])
            elif k == "incsym":
                # counter += k: avail >= c + counter_old = (c - k) + counter_new
                out = []
                for g in st:
                    if op[1] in g[1] and g[0] < 10 ** 5:
                        c = g[0] - op[2] * list(g[1]).count(op[1])
                        out.append(form(c, g[1]) if c >= -4 else form(g[0], [s for s in g[1] if s != op[1]]))
                    else:
                        out.append(g)
                st = norm(out)
            elif k == "shift":
                # relative callee summary: the callee returns with at least (entry window + delta)
                if not is_top(st):
                    st = norm([form(g[0] + op[1], g[1]) for g in st if g[0] + op[1] >= 0 or g[1]])
            elif k == "kill":
                if not is_top(st):
                    st = norm([form(g[0], [s for s in g[1] if s != op[1]]) for g in st])
        return st

    def _transfer(self, st, e):
        if st == "unreached":
            return st
        return self._apply(st, self.elem_cb(e), e)

    def _edge(self, st, b, si):
        lab = b.edge_label(si)
        if lab is True or lab is False:
            c = b.cond
            if c is not None:
                st = self._apply(st, self.edge_cb(c, lab))
        return st


def guard_ops(c, truth, cur, sizes, extra=None, canon=None, wide=()):
    """knowledge about `size - cur` gained when condition `c` evaluates to `truth`.

    cur   : symbol of the cursor (as produced by lin(): variable name or shown member expression)
    sizes : set of symbols that denote the limit (e.g. '_text.size()')
    extra : callback(c, truth) -> ops for idioms the rule knows (callee post-conditions, eof() accessors)
    Handles !, &&, || and the six comparisons in either operand order."""
    from .rules.common import cmp_parts
    c = strip_casts(c)
    if c is None:
        return []
    k = c.get("k")
    if k == "un" and c.get("op") == "!":
        return guard_ops(c["v"], not truth, cur, sizes, extra, canon, wide)
    if k == "bin" and c.get("op") == "&&":
        if truth:
            return guard_ops(c["lhs"], True, cur, sizes, extra, canon, wide) + guard_ops(c["rhs"], True, cur, sizes, extra, canon, wide)
        return []
    if k == "bin" and c.get("op") == "||":
        if not truth:
            return guard_ops(c["lhs"], False, cur, sizes, extra, canon, wide) + guard_ops(c["rhs"], False, cur, sizes, extra, canon, wide)
        return []
    ops = list(extra(c, truth) or []) if extra else []
    cp = cmp_parts(c)
    if not cp:
        return ops
    op, l, r = cp
    fl, fr = lin(l), lin(r)
    if canon is not None:
        fl, fr = canon(fl), canon(fr)
    if fl is None or fr is None:
        return ops
    flip = {"<": ">", ">": "<", "<=": ">=", ">=": "<=", "==": "==", "!=": "!="}
    if len(fl[1]) == 1 and fl[1][0] in sizes and fl[0] == 0 and cur in fr[1]:
        fl, fr, op = fr, fl, flip[op]
    if not (len(fr[1]) == 1 and fr[1][0] in sizes and fr[0] == 0 and list(fl[1]).count(cur) == 1):
        return ops
    rest = form(fl[0], [s for s in fl[1] if s != cur])
    # `wide` symbols are lengths that can be as large as the cursor's type (64-bit values taken from the input): the sum
    # cur + length can wrap, so a test in ADDITION form establishes nothing about them (only `length > size - cur` does)
    if any(s in wide for s in rest[1]):
        return ops
    # cur + rest  op  size
    if not truth:
        op = {"<": ">=", ">=": "<", ">": "<=", "<=": ">", "==": "!=", "!=": "=="}[op]
    if op == "<":
        ops.append(("atleast", form(rest[0] + 1, rest[1])))
    elif op == "<=":
        ops.append(("atleast", rest))
    elif op == "!=" and rest == form(0):
        ops.append(("atleast_if_nonneg", form(1)))
    return ops
