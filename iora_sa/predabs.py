"""A5: finite path-predicate abstraction (DESIGN.md 1.3 A5).

A rule declares a small vocabulary of boolean atoms.  The abstract state at a program point is the *set of
truth assignments* to the atoms that some path to that point allows, kept as a bitmask over the 2^n
assignments (n <= 12).  Branch edges filter assignments by the translated condition; rule-declared effects
havoc / set / assign atoms.  Join is union, so the analysis is an exact predicate abstraction over the
vocabulary and terminates.  `entails(elem, formula)` asks whether the formula holds on every path to elem.

Formulas: ('a', name) | ('not', f) | ('and', f, g) | ('or', f, g) | ('T',) | ('F',)
"""
from .cfg import Forward
from .expr import strip_casts, last

T = ("T",)
F = ("F",)


def A(name):
    return ("a", name)


def Not(f):
    if f == T:
        return F
    if f == F:
        return T
    if f[0] == "not":
        return f[1]
    return ("not", f)


def And(*fs):
    out = T
    for f in fs:
        if f == F:
            return F
        if f == T:
            continue
        out = f if out == T else ("and", out, f)
    return out


def Or(*fs):
    out = F
    for f in fs:
        if f == T:
            return T
        if f == F:
            continue
        out = f if out == F else ("or", out, f)
    return out


def atoms_of(f, acc=None):
    acc = set() if acc is None else acc
    if f[0] == "a":
        acc.add(f[1])
    elif f[0] in ("not",):
        atoms_of(f[1], acc)
    elif f[0] in ("and", "or"):
        atoms_of(f[1], acc)
        atoms_of(f[2], acc)
    return acc


class Vocab:
    def __init__(self, atoms):
        self.atoms = list(atoms)
        if len(self.atoms) > 12:
            raise ValueError("vocabulary too large")
        self.idx = {a: i for i, a in enumerate(self.atoms)}
        self.n = len(self.atoms)
        self.size = 1 << self.n
        self.full = (1 << self.size) - 1
        self._mask1 = []
        for i in range(self.n):
            m = 0
            for a in range(self.size):
                if a >> i & 1:
                    m |= 1 << a
            self._mask1.append(m)
        self._cache = {}

    def mask(self, f):
        """bitmask of assignments satisfying f"""
        if f in self._cache:
            return self._cache[f]
        k = f[0]
        if k == "T":
            m = self.full
        elif k == "F":
            m = 0
        elif k == "a":
            if f[1] not in self.idx:
                raise KeyError("atom %s not in vocabulary" % f[1])
            m = self._mask1[self.idx[f[1]]]
        elif k == "not":
            m = self.full & ~self.mask(f[1])
        elif k == "and":
            m = self.mask(f[1]) & self.mask(f[2])
        elif k == "or":
            m = self.mask(f[1]) | self.mask(f[2])
        else:
            raise ValueError(f)
        self._cache[f] = m
        return m

    def assume(self, st, f):
        return st & self.mask(f)

    def havoc(self, st, atom):
        i = self.idx[atom]
        sh = 1 << i
        m1 = self._mask1[i]
        return (st | ((st & m1) >> sh) | ((st & ~m1 & self.full) << sh)) & self.full

    def set(self, st, atom, val):
        i = self.idx[atom]
        sh = 1 << i
        m1 = self._mask1[i]
        if val:
            return ((st & m1) | ((st & ~m1 & self.full) << sh)) & self.full
        return ((st & ~m1 & self.full) | ((st & m1) >> sh)) & self.full

    def assign(self, st, atom, f):
        mf = self.mask(f)
        return self.set(st & mf, atom, True) | self.set(st & ~mf & self.full, atom, False)

    def entails(self, st, f):
        return st & ~self.mask(f) & self.full == 0

    def describe(self, st):
        """which atoms are certainly true / false in st"""
        out = []
        for a in self.atoms:
            if self.entails(st, A(a)):
                out.append(a)
            elif self.entails(st, Not(A(a))):
                out.append("!" + a)
        return out


_MIRROR_OP = {"<": ">", ">": "<", "<=": ">=", ">=": "<=", "==": "==", "!=": "!="}


def _mirror(n):
    if n.get("k") == "bin" and n.get("op") in _MIRROR_OP and isinstance(n.get("lhs"), dict) and isinstance(n.get("rhs"), dict):
        m = dict(n)
        m["lhs"], m["rhs"], m["op"] = n["rhs"], n["lhs"], _MIRROR_OP[n["op"]]
        return m
    if n.get("k") == "opcall" and n.get("op") in _MIRROR_OP and len(n.get("args", [])) == 2:
        m = dict(n)
        m["args"] = [n["args"][1], n["args"][0]]
        m["op"] = _MIRROR_OP[n["op"]]
        return m
    return None


def translate(node, leaf):
    """condition tree -> formula; leaf(node) returns a formula or None (unknown: no information)"""
    n = strip_casts(node)
    if n is None:
        return None
    r = leaf(n)
    if r is not None:
        return r
    # `a < b` and `b > a` are the same test: a leaf that does not recognise a comparison is offered its mirror image, so that
    # no rule depends on which way round the source spells it (tools/flip_sweep.py)
    m = _mirror(n)
    if m is not None:
        r = leaf(m)
        if r is not None:
            return r
    k = n.get("k")
    if k == "un" and n["op"] == "!":
        s = translate(n["v"], leaf)
        return None if s is None else Not(s)
    if k == "opcall" and n.get("op") == "!" and len(n["args"]) == 1:
        s = translate(n["args"][0], leaf)
        return None if s is None else Not(s)
    if k == "bin" and n["op"] == "&&":
        a, b = translate(n["lhs"], leaf), translate(n["rhs"], leaf)
        if a is None and b is None:
            return None
        # unknown conjunct: the whole may be false for an unknown reason -> only usable positively;
        # handled by caller through translate_edge
        return ("and?", a, b)
    if k == "bin" and n["op"] == "||":
        a, b = translate(n["lhs"], leaf), translate(n["rhs"], leaf)
        if a is None and b is None:
            return None
        return ("or?", a, b)
    if k == "mcall" and last(n.get("callee", "")).startswith("operator bool"):
        return translate(n.get("obj"), leaf)
    if k == "bin" and n["op"] in ("==", "!=") and n["rhs"].get("k") in ("bool",):
        s = translate(n["lhs"], leaf)
        if s is None:
            return None
        pos = (n["rhs"]["cv"] == 1) == (n["op"] == "==")
        return s if pos else Not(s)
    return None


def known_when(fm, truth):
    """what is certainly known when the (partially unknown) formula fm evaluates to `truth`:
    returns a total formula (over-approximating the set of states, i.e. sound to assume)"""
    if fm is None:
        return T
    k = fm[0]
    if k == "and?":
        a, b = fm[1], fm[2]
        if truth:
            return And(known_when(a, True), known_when(b, True))
        # a && b false: a false or b false
        if a is None or b is None:
            return T
        return Or(known_when(a, False), known_when(b, False))
    if k == "or?":
        a, b = fm[1], fm[2]
        if not truth:
            return And(known_when(a, False), known_when(b, False))
        if a is None or b is None:
            return T
        return Or(known_when(a, True), known_when(b, True))
    if k == "not":
        return known_when(fm[1], not truth)
    if k in ("and", "or", "a", "T", "F"):
        return fm if truth else Not(_total(fm))
    return T


def _total(fm):
    return fm


def total(fm):
    """a real formula if every leaf of fm was translated, else None"""
    if fm is None:
        return None
    k = fm[0]
    if k in ("and?", "or?"):
        a, b = total(fm[1]), total(fm[2])
        if a is None or b is None:
            return None
        return And(a, b) if k == "and?" else Or(a, b)
    if k == "not":
        a = total(fm[1])
        return None if a is None else Not(a)
    return fm


class PredAbs:
    """run the abstraction over one function.

    vocab   : Vocab
    leaf    : node -> formula|None       (atoms for condition leaves)
    effects : Elem -> list of ops        ops: ('havoc', atom) ('set', atom, bool) ('assume', formula)
                                              ('assign', atom, formula) ('havoc_all', [atoms])
    init    : formula assumed at entry
    """

    def __init__(self, f, vocab, leaf, effects, init=T, track_bools=False, eh_after=False, eh=True, eh_assume=None):
        self.f = f
        self.leaf = leaf
        self.effects = effects
        self.boolvars = {}
        if track_bools:
            # local `bool x = <condition>` copies of a tracked condition become atoms of their own, so that
            # `const bool done = op->done; if (done)` is as good as `if (op->done)`
            for e in f.stmts():
                n = e.node
                if n.get("k") == "decl":
                    for v in n["vars"]:
                        if v["t"] in ("bool", "const bool") and v.get("init") is not None and len(vocab.atoms) + len(self.boolvars) < 12:
                            if translate(v["init"], leaf) is not None:
                                self.boolvars[v["d"]] = "b:%s:%d" % (v["n"], v["d"])
            if self.boolvars:
                vocab = Vocab(list(vocab.atoms) + sorted(self.boolvars.values()))
                self.leaf = self._leaf_b
                self.effects = self._effects_b
                self._leaf0, self._eff0 = leaf, effects
        self.v = vocab
        st0 = vocab.assume(vocab.full, init)
        # eh_assume: formula assumed to hold whenever an exception edge is taken (e.g. "nothing throws after the hand-off")
        flt = (lambda st, e: self.v.assume(st, eh_assume)) if eh_assume is not None else None
        self.flow = Forward(f, st0, self._transfer, lambda a, b: a | b, edge=self._edge, eh_after=eh_after, eh=eh, eh_filter=flt)

    def _leaf_b(self, n):
        r = self._leaf0(n)
        if r is None and n.get("k") == "var" and n.get("d") in self.boolvars:
            return A(self.boolvars[n["d"]])
        return r

    def _effects_b(self, e):
        ops = list(self._eff0(e) or [])
        if e.kind == "stmt":
            n = e.node
            if n.get("k") == "decl":
                for v in n["vars"]:
                    a = self.boolvars.get(v["d"])
                    if a and v.get("init") is not None:
                        fm = translate(v["init"], self._leaf_b)
                        tf = total(fm)
                        if tf is not None:
                            ops.append(("assign", a, tf))
                        else:
                            ops.append(("havoc", a))
                            ops.append(("assume", Or(Not(A(a)), known_when(fm, True))))
                            ops.append(("assume", Or(A(a), known_when(fm, False))))
            elif n.get("k") == "bin" and n["op"] == "=" and n["lhs"].get("k") == "var" and n["lhs"].get("d") in self.boolvars:
                ops.append(("havoc", self.boolvars[n["lhs"]["d"]]))
        return ops

    def _apply(self, st, ops):
        v = self.v
        for op in ops or ():
            if op[0] == "havoc":
                st = v.havoc(st, op[1])
            elif op[0] == "havoc_all":
                for a in op[1]:
                    st = v.havoc(st, a)
            elif op[0] == "set":
                st = v.set(st, op[1], op[2])
            elif op[0] == "assume":
                st = v.assume(st, op[1])
            elif op[0] == "assign":
                st = v.assign(st, op[1], op[2])
        return st

    def _transfer(self, st, e):
        return self._apply(st, self.effects(e))

    def _edge(self, st, b, si):
        lab = b.edge_label(si)
        if lab is True or lab is False:
            c = b.cond
            if c is not None:
                fm = translate(c, self.leaf)
                st = self.v.assume(st, known_when(fm, lab))
                if st == 0:
                    return None
        return st

    def before(self, elem):
        return self.flow.before(elem)

    def edge_feasible(self, b, si):
        """False if no abstract state can take the si-th successor edge of block b"""
        st = self.flow.at_block_end(b)
        if st is None:
            return False
        return self._edge(st, b, si) is not None

    def at_exit(self):
        """abstract state on entry to the function's exit block (None if the exit is unreachable)"""
        return self.flow.block_in.get(self.f.exit)

    def exit_entails(self, formula):
        st = self.at_exit()
        return True if st is None else self.v.entails(st, formula)

    def describe_exit(self):
        st = self.at_exit()
        return [] if st is None else self.v.describe(st)

    def reachable(self, elem):
        st = self.flow.before(elem)
        return st is not None and st != 0

    def entails(self, elem, formula):
        st = self.flow.before(elem)
        if st is None:
            return True
        return self.v.entails(st, formula)

    def describe(self, elem):
        st = self.flow.before(elem)
        return [] if st is None else self.v.describe(st)
