LLVM=/usr/lib/llvm-14
CXXFLAGS=$(shell llvm-config-14 --cxxflags) -fno-rtti -O1 -std=c++17
setup: bin/iora-facts
bin/iora-facts: tool/iora_facts.cc
	mkdir -p bin
	clang++ $(CXXFLAGS) tool/iora_facts.cc -o bin/iora-facts $(LLVM)/lib/libclang-cpp.so.14 $(LLVM)/lib/libLLVM-14.so
clean:
	rm -rf bin .cache out
.PHONY: setup clean
